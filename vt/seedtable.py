"""Regenerates the seeded-defect table of DESIGN.md (section 8.5) from seeded/*/meta.json: python -m vt.seedtable"""
import json
from pathlib import Path

ROOT = Path(__file__).resolve().parent.parent


def main():
    rows = []
    for d in sorted((ROOT / 'seeded').iterdir()):
        m = d / 'meta.json'
        if not m.exists():
            continue
        meta = json.loads(m.read_text())
        conf = meta.get('confirmed', {})
        checks = conf.get('checks', {})
        det = [c for c, r in checks.items() if r.get('exit') == 1]
        mis = [c for c, r in checks.items() if r.get('exit') == 0]
        summary = (meta.get('summary') or meta.get('raw') or '')[:230].replace('|', '/').replace('\n', ' ')
        rows.append('| %s | %s | %s | %s | %s |' % (d.name, meta.get('property', conf.get('property', '?')), summary,
                                                  ', '.join(det) or '-', ', '.join(mis) or '-'))
    table = ('| seeded id | property | change (as described by its author) | reported by (quick) | run but silent |\n|---|---|---|---|---|\n'
             + '\n'.join(rows) + '\n')
    p = ROOT / 'DESIGN.md'
    s = p.read_text()
    start = s.index('<!-- SEEDED-TABLE-START -->') if '<!-- SEEDED-TABLE-START -->' in s else None
    if start is None:
        s = s.replace('SEEDED_TABLE_PLACEHOLDER', '<!-- SEEDED-TABLE-START -->\n' + table + '<!-- SEEDED-TABLE-END -->')
    else:
        end = s.index('<!-- SEEDED-TABLE-END -->')
        s = s[:start] + '<!-- SEEDED-TABLE-START -->\n' + table + s[end:]
    p.write_text(s)
    print(len(rows), 'rows')


if __name__ == '__main__':
    main()
