"""CLI: python -m vt.check CNN --tier quick|thorough [--replay FILE]

Exit 0: property held on everything explored (KNOWN-FINDING lines may be printed).
Exit 1: 'VIOLATION property=<id> replay=<path>' printed.   Exit 2: harness error (no verdict).
"""
import argparse
import os
import sys


def main():
    ap = argparse.ArgumentParser()
    ap.add_argument('check')
    ap.add_argument('--tier', default=os.environ.get('VERIF_TIER', 'quick'), choices=['quick', 'thorough'])
    ap.add_argument('--replay')
    ap.add_argument('--no-line', action='store_true')
    ap.add_argument('--jobs', type=int, default=None)
    ap.add_argument('--limit', type=int, default=None)
    ap.add_argument('--triage', action='store_true')
    ap.add_argument('--wall', type=float, default=float(os.environ.get('VERIF_WALL', '0') or 0) or None,
                    help='overall wall cap in seconds: items not started by then are reported as not run')
    a = ap.parse_args()
    # deterministic hashing: re-exec once with a fixed hash seed
    want = os.environ.get('VERIF_HASHSEED', '0')
    if os.environ.get('PYTHONHASHSEED') != want:
        env = dict(os.environ)
        env['PYTHONHASHSEED'] = want
        os.execve(sys.executable, [sys.executable, '-m', 'vt.check'] + sys.argv[1:], env)
    import warnings
    warnings.simplefilter('ignore')
    from vt import core
    seed = int(os.environ.get('VERIF_SEED', '0') or 0)
    if a.replay:
        sys.exit(core.replay(a.check, a.replay, print_line=not a.no_line))
    sys.exit(core.run_check(a.check, a.tier, seed, jobs=a.jobs, limit=a.limit, triage=a.triage, wall=a.wall))


if __name__ == '__main__':
    main()
