"""Reference semantics for SweetPea designs, written from the documentation (docs/_source/api/*.rst,
guide/usage.rst) and deliberately naive. Independent of sweetpea code: nothing from the library is imported.

A spec is a plain JSON-able dict:
  {'factors': [F...], 'block': B}
F basic:   {'name': 'A', 'levels': [['a0',1], ['a1',2]]}                       (name, weight)
F derived: {'name': 'D', 'deps': ['A'], 'kind': 'within'|'transition'|'window', 'width': 2, 'stride': 1,
            'start': None, 'levels': [['d0',1], ['d1',1]], 'table': {key: [level indices]}, 'else': idx or None}
   key = '|'.join(level names, '~' for "no level"), dependency-major, oldest trial first.
B: {'op':'cross','design':[..],'crossing':[..],'constraints':[..],'rcc':True}
   {'op':'multi','design':[..],'crossings':[[..]],'constraints':[..],'rcc':True,'mode':'equal','alignment':'equal preamble'}
   {'op':'repeat','block':B,'constraints':[..]}
   {'op':'merge','blocks':[B..],'constraints':[..],'mode':'repeat','alignment':None}
   {'op':'nest','outer':B,'inner':B,'constraints':[..],'alignment':None}
C: {'c':'AtMostKInARow'|'AtLeastKInARow'|'ExactlyKInARow'|'ExactlyK','k':1,'factor':'A','level':'a0' or None}
   {'c':'Exclude','factor','level'} {'c':'Pin','index','factor','level'} {'c':'MinimumTrials','k'}
   {'c':'Sequential','factor'} {'c':'LatinSquare','factors':[..]}

Result of `solve(spec)`: Ref object with
   .T            trial count (documented arithmetic)
   .design       factor names in output order
   .errors       non-empty when the documentation says the design has no sequences by construction
   .readings     list of dicts {printed sequence -> multiplicity}; an implementation result is accepted iff it
                 equals one reading (exhaustion) or is contained in one (soundness).  Normally one reading.
"""
import itertools
from collections import Counter

NONE = '~'


class RefOverflow(Exception):
    pass


class RefUnsupported(Exception):
    """The documentation does not determine the answer for this shape (generator should not produce it)."""


def fmap(spec):
    return {f['name']: f for f in spec['factors']}


def is_derived(f):
    return 'deps' in f


def default_start(fm, f):
    # "the earliest where all factors in `factors` have a level for the trial and preceding width-1 trials"
    st = f['width'] - 1
    for d in f['deps']:
        df = fm[d]
        ready = 0
        if is_derived(df):
            ready = eff_start(fm, df)
        st = max(st, ready + f['width'] - 1)
    return st


def eff_start(fm, f):
    if not is_derived(f):
        return 0
    if f.get('kind') == 'transition':
        # `Transition` takes no start argument: "the current trial and the immediately preceding trial", first level
        # at trial 1 (A12: for a Transition over a complex derived factor the docs' "equivalent to Window(width 2)" would
        # give a later automatic start; the generator builds those shapes with Window instead)
        return 1
    if f.get('start') is None:
        return default_start(fm, f)
    return f['start']


def applies(fm, f, t, sustain=1):
    """t is a 0-based trial index; sustain: group size for this factor (Nest)."""
    if not is_derived(f):
        return True
    g = t // sustain
    st = eff_start(fm, f)
    return g >= st and (g - st) % f['stride'] == 0


def weight_sum(f):
    return sum(w for _, w in f['levels'])


def level_names(f):
    return [l for l, _ in f['levels']]


def depth(fm, f):
    if not is_derived(f):
        return 0
    return 1 + max(depth(fm, fm[d]) for d in f['deps'])


def lookup(f, key):
    hit = f['table'].get(key, [])
    if not hit and f.get('else') is not None:
        hit = [f['else']]
    return [f['levels'][i][0] for i in hit]


def is_within(fm, f):
    """derived, applies to every trial from trial 0 and looks at the current trial only"""
    return is_derived(f) and f['width'] == 1 and f['stride'] == 1 and eff_start(fm, f) == 0


# ---------------------------------------------------------------------------------------------
# geometry

class Cx:
    def __init__(self, factors, preamble, sustain=1, scale=1):
        self.factors = list(factors)
        self.preamble = preamble    # in groups
        self.sustain = sustain
        self.scale = scale          # crossing weight
        self.size = None            # trials for one pass (level weights incl., scale excl.), in groups
        self.start = None           # in trials
        self.chunk = None           # in trials
        self.combos = None          # combo -> per-chunk count (in trials)


class Sem:
    def __init__(self):
        self.design = []
        self.cxs = []
        self.T = None
        self.min_trials = 0
        self.cons = []          # (constraint, scope); scope None (own, not yet scoped) | 'global' | (n, preamble[, sustain])
        self.excludes = []
        self.rcc = True
        self.errors = []
        self.alignment = 'equal preamble'
        self.mode = 'weight'
        self.sustain = {}
        self.refused = None     # constructor must raise


def derive_within(fm, f, tr):
    key = '|'.join(tr[d] if tr.get(d) not in (None, '') else NONE for d in f['deps'])
    return lookup(f, key)


def possible_combos(fm, sem, crossing):
    """Crossing combinations that can occur in a single trial given within-trial derived definitions and
    Exclude constraints ("combinations involving the factor are removed", "implicitly excludes certain
    combinations by the definition of its levels"). -> list of (combo, weight)"""
    excl = set(sem.excludes)
    design = [fm[n] for n in sem.design]
    basics = [f for f in design if not is_derived(f)]
    wt_derived = sorted([f for f in design if is_within(fm, f)], key=lambda f: depth(fm, f))
    cross_f = [fm[n] for n in crossing]
    out = []
    for combo in itertools.product(*[level_names(f) for f in cross_f]):
        if any((f['name'], l) in excl for f, l in zip(cross_f, combo)):
            continue
        fixed = {f['name']: l for f, l in zip(cross_f, combo)}
        free = [f for f in basics if f['name'] not in fixed]
        ok = False
        for vals in itertools.product(*[level_names(f) for f in free]):
            tr = {f['name']: fixed[f['name']] for f in basics if f['name'] in fixed}
            tr.update({f['name']: v for f, v in zip(free, vals)})
            if any((n, v) in excl for n, v in tr.items()):
                continue
            good = True
            for df in wt_derived:
                if not all(d in tr for d in df['deps']):
                    continue   # depends on a complex factor: not decidable within one trial
                lv = derive_within(fm, df, tr)
                if len(lv) != 1:
                    good = False
                    break
                tr[df['name']] = lv[0]
                if (df['name'], lv[0]) in excl:
                    good = False
                    break
                if df['name'] in fixed and fixed[df['name']] != lv[0]:
                    good = False
                    break
            if good:
                ok = True
                break
        if ok:
            w = 1
            for f, l in zip(cross_f, combo):
                w *= dict((a, b) for a, b in f['levels'])[l]
            out.append((combo, w))
        elif not any((f['name'], l) in excl for f, l in zip(cross_f, combo)):
            # A14: the combination is impossible only JOINTLY (each crossed derived level is producible on its own, but no single
            # choice of the other factors produces them together). The documentation speaks of combinations excluded "by the
            # definition of its levels" of *a* derived factor and the library only warns that "dependencies among factors may make
            # the crossing unsatisfiable"; whether the crossing shrinks is not determined.
            crossed_wt = [df for df in wt_derived if df['name'] in fixed]
            each_ok = True
            for df in crossed_wt:
                one = False
                for vals in itertools.product(*[level_names(f) for f in basics]):
                    tr = {f['name']: v for f, v in zip(basics, vals)}
                    if any(tr[n] != fixed[n] for n in tr if n in fixed):
                        continue
                    if any((n, v) in excl for n, v in tr.items()):
                        continue
                    good = True
                    for d2 in wt_derived:
                        if not all(d in tr for d in d2['deps']):
                            continue
                        lv = derive_within(fm, d2, tr)
                        if len(lv) != 1:
                            good = False
                            break
                        tr[d2['name']] = lv[0]
                    if good and tr.get(df['name']) == fixed[df['name']]:
                        one = True
                        break
                if not one:
                    each_ok = False
                    break
            if each_ok and len(crossed_wt) >= 2:
                raise RefUnsupported('A14: crossing combination impossible only jointly')
    return out


def full_crossing_size(fm, crossing):
    n = 1
    for c in crossing:
        n *= weight_sum(fm[c])
    return n


def cx_preamble(fm, crossing):
    # "the one with the latest starting trial determines the number of preamble trials"
    p = 0
    for c in crossing:
        p = max(p, eff_start(fm, fm[c]))
    return p


def P_of(sem):
    if not sem.cxs:
        return 0
    if sem.alignment == 'post preamble':
        return max(cx.start for cx in sem.cxs)
    return sem.cxs[0].start


def add_constraint(sem, c, scope):
    if c['c'] == 'MinimumTrials':
        sem.min_trials = max(sem.min_trials, c['k'])
        return
    if c['c'] == 'Exclude':
        sem.excludes.append((c['factor'], c['level']))
    sem.cons.append((c, scope))


def compile_block(spec, b, opts):
    fm = fmap(spec)
    op = b['op']
    if op in ('cross', 'multi'):
        sem = Sem()
        sem.design = list(b['design'])
        sem.rcc = b.get('rcc', True)
        crossings = [b['crossing']] if op == 'cross' else b['crossings']
        crossings = [c for c in crossings if c]
        sem.mode = 'weight' if op == 'cross' else b.get('mode', 'equal')
        sem.alignment = 'equal preamble' if op == 'cross' else b.get('alignment', 'equal preamble')
        for c in b['constraints']:
            add_constraint(sem, c, None)
        for c in crossings:
            sem.cxs.append(Cx(c, cx_preamble(fm, c)))
        finalize(fm, sem, sem.mode, False, opts)
        return sem
    if op == 'repeat':
        inner = compile_block(spec, b['block'], opts)
        return merge_sems(fm, [inner], b['constraints'], 'repeat', 'equal preamble', opts)
    if op == 'merge':
        inners = [compile_block(spec, x, opts) for x in b['blocks']]
        al = b.get('alignment') or inners[0].alignment
        return merge_sems(fm, inners, b['constraints'], b.get('mode', 'repeat'), al, opts)
    if op == 'nest':
        outer = compile_block(spec, b['outer'], opts)
        inner = compile_block(spec, b['inner'], opts)
        return nest_sems(fm, outer, inner, b.get('constraints', []), b.get('alignment'), opts)
    raise ValueError(op)


def finalize(fm, sem, top_mode, keep_scale, opts):
    """sizes, T, scales, starts, chunks (documented arithmetic)."""
    for cx in sem.cxs:
        combos = possible_combos(fm, sem, cx.factors)
        # A11: the docs say that excluded levels "of a crossed factor" and combinations excluded "by the definition" of
        # derived levels shrink the crossing; whether an Exclude on a factor outside the crossing does is not determined
        crossed = set(cx.factors)
        keep = [e for e in sem.excludes if e[0] in crossed]
        if len(keep) != len(sem.excludes):
            saved = sem.excludes
            sem.excludes = keep
            try:
                alt = possible_combos(fm, sem, cx.factors)
            finally:
                sem.excludes = saved
            if alt != combos:
                raise RefUnsupported('A11: Exclude outside the crossing removes crossing combinations')
        full = full_crossing_size(fm, cx.factors)
        size = sum(w for _, w in combos)
        if size != full and sem.rcc:
            sem.errors.append('complete crossing unsatisfiable')
        cx.size = size
        cx.base_combos = combos
    if any(cx.size == 0 for cx in sem.cxs):
        sem.errors.append('empty crossing')
        sem.T = 0
        return
    mt = sem.min_trials
    for cx in sem.cxs:           # minimum trials rounded up to whole groups
        if mt % cx.sustain:
            mt = (mt // cx.sustain + 1) * cx.sustain
    if sem.alignment == 'equal preamble' and len(set(cx.preamble * cx.sustain for cx in sem.cxs)) > 1:
        sem.refused = 'EQUAL_PREAMBLE with different preambles'
    if sem.alignment == 'post preamble':
        P = max([cx.preamble * cx.sustain for cx in sem.cxs] + [0])
        need = max([P + max(c.size * c.sustain * (c.scale if keep_scale else 1) for c in sem.cxs)] if sem.cxs else [1])
        for cx in sem.cxs:
            cx.start = P
    else:
        # (a crossing taken over from a block whose own trial count cut its last scaled pass short keeps that span)
        need = max([1] + [(cx.preamble + (cx.span if (keep_scale and getattr(cx, 'span', None)) else cx.size * (cx.scale if keep_scale else 1)))
                          * cx.sustain for cx in sem.cxs])
        for cx in sem.cxs:
            cx.start = cx.preamble * cx.sustain
    sem.T = max(mt, need)
    for cx in sem.cxs:
        one = cx.size * cx.sustain
        if top_mode != 'repeat':
            # "replicated using the smallest multiple N such that S * N >= T" (A5: which T under POST_PREAMBLE)
            if sem.alignment == 'post preamble' and opts.get('a5') == 'own':
                span = sem.T - cx.preamble * cx.sustain
            else:
                span = sem.T - cx.start
            n = max(1, -(-span // one))
            if top_mode == 'equal' and n != cx.scale:
                sem.refused = 'EQUAL with different sizes'
            cx.scale = n
        cx.chunk = one * cx.scale
        cx.combos = {c: w * cx.scale * cx.sustain for c, w in cx.base_combos}


def merge_sems(fm, inners, constraints, mode, alignment, opts):
    sem = Sem()
    sem.mode = mode
    sem.alignment = alignment
    sem.rcc = all(i.rcc for i in inners)
    for i in inners:
        if i.refused:
            sem.refused = i.refused
        if i.alignment != alignment:
            sem.refused = 'different alignments'
        for n in i.design:
            if n not in sem.design:
                sem.design.append(n)
        for cx in i.cxs:
            ncx = Cx(cx.factors, cx.preamble, cx.sustain, cx.scale)
            if mode == 'repeat' and i.T is not None and i.alignment != 'post preamble':
                # the merged block repeats the inner block as it is: a scaled crossing whose last pass the inner block's own trial
                # count cut short keeps that span (Merge([block]) == block)
                ncx.span = max(1, i.T // cx.sustain - cx.preamble)
            sem.cxs.append(ncx)
        sem.min_trials = max(sem.min_trials, i.min_trials)
        sem.excludes += i.excludes
        for (c, scope) in i.cons:      # "Constraints associated with a block apply to individual repetitions"
            if scope is None:
                scope = (i.T, P_of(i))
            sem.cons.append((c, scope))
        sem.errors += i.errors
        for k, v in i.sustain.items():
            sem.sustain[k] = v
    for c in constraints:              # "Additional constraints supplied to Merge apply to the entire sequence"
        add_constraint(sem, c, 'global')
    finalize(fm, sem, mode, mode == 'repeat', opts)
    return sem


def nest_sems(fm, outer, inner, constraints, alignment, opts):
    sem = Sem()
    sem.mode = 'repeat'
    al = alignment or outer.alignment
    if al != inner.alignment:
        if al == 'equal preamble' and len(outer.cxs) == 1:
            al = inner.alignment
        elif inner.alignment == 'equal preamble' and len(inner.cxs) == 1:
            pass
        else:
            sem.refused = 'different alignment'
    sem.alignment = al
    if outer.refused or inner.refused:
        sem.refused = outer.refused or inner.refused
    if set(f for cx in outer.cxs for f in cx.factors) & set(f for cx in inner.cxs for f in cx.factors):
        sem.refused = 'factor in both crossings'
    sem.rcc = outer.rcc and inner.rcc
    L = inner.T - P_of(inner)          # "repeats inner_block once for each combination described by outer_block"
    for n in outer.design + inner.design:
        if n not in sem.design:
            sem.design.append(n)
    for cx in outer.cxs:
        ncx = Cx(cx.factors, cx.preamble, cx.sustain * L, cx.scale)
        # "once for each combination described by outer_block": the outer block's own trial count (its MinimumTrials may have
        # left its last scaled pass partial) fixes how many groups there are
        if len(outer.cxs) == 1 and outer.alignment != 'post preamble':
            ncx.span = outer.T // cx.sustain - cx.preamble
        sem.cxs.append(ncx)
    for cx in inner.cxs:
        sem.cxs.append(Cx(cx.factors, cx.preamble, cx.sustain, cx.scale))
    sem.min_trials = max(outer.min_trials * L, inner.min_trials)
    sem.excludes = outer.excludes + inner.excludes
    for (c, scope) in outer.cons:
        if scope is None:
            scope = (outer.T * L, P_of(outer) * L, L)
        elif scope != 'global':
            scope = (scope[0] * L, scope[1] * L, (scope[2] if len(scope) > 2 else 1) * L)
        else:
            scope = (outer.T * L, 0, L) if False else 'global_outer:%d' % L
        sem.cons.append((c, scope))
    for (c, scope) in inner.cons:
        if scope is None:
            scope = (inner.T, P_of(inner))
        sem.cons.append((c, scope))
    sem.errors = outer.errors + inner.errors
    for c in constraints:
        add_constraint(sem, c, 'global')
    for k, v in inner.sustain.items():
        sem.sustain[k] = v
    for k, v in outer.sustain.items():
        sem.sustain[k] = v * L
    finalize(fm, sem, 'repeat', True, opts)
    for cx in sem.cxs:
        for f in cx.factors:
            sem.sustain[f] = cx.sustain
    return sem


# ---------------------------------------------------------------------------------------------
# validity of one sequence

def windows_for(sem, scope):
    if scope is None or scope == 'global' or (isinstance(scope, str) and scope.startswith('global_outer')):
        return [(0, sem.T)]
    n, p = scope[0], scope[1]
    start = 0
    if sem.alignment == 'post preamble':
        start = P_of(sem) - p
    step = n - p
    if step <= 0:
        return [(start, min(start + n, sem.T))]
    out = []
    s, e = start, start + n
    while s < sem.T - p:
        out.append((s, min(e, sem.T)))
        s += step
        e += step
    return out


def runs(vals, level):
    out = []
    n = 0
    for v in vals:
        if v == level:
            n += 1
        else:
            if n:
                out.append(n)
            n = 0
    if n:
        out.append(n)
    return out


def scope_sustain(scope):
    if isinstance(scope, tuple) and len(scope) > 2:
        return scope[2]
    if isinstance(scope, str) and scope.startswith('global_outer'):
        return int(scope.split(':')[1])
    return 1


def check_constraint(fm, sem, c, scope, seq, opts):
    kind = c['c']
    if kind == 'Exclude':
        return c['level'] not in seq[c['factor']]
    if kind in ('AtMostKInARow', 'AtLeastKInARow', 'ExactlyKInARow', 'ExactlyK'):
        f = fm[c['factor']]
        levels = [c['level']] if c.get('level') is not None else level_names(f)
        sus = scope_sustain(scope)
        for (s, e) in windows_for(sem, scope):
            vals = seq[c['factor']][s:e]
            if fm[c['factor']].get('stride', 1) > 1 or True:
                # a factor that has no level at a trial cannot continue or break a run there: runs are over
                # the trials where the factor applies
                vals = [v for v in vals if v != '']
            for lv in levels:
                rs = runs(vals, lv)
                k = c['k']
                if kind == 'AtMostKInARow' and any(r > k for r in rs):
                    return False
                if kind == 'AtLeastKInARow' and any(r < k for r in rs):
                    return False
                if kind == 'ExactlyKInARow' and any(r != k for r in rs):
                    return False
                if kind == 'ExactlyK' and sum(rs) != k * (sus if opts.get('exactlyk_scaled', True) else 1):
                    return False
        return True
    if kind == 'Pin':
        sus = scope_sustain(scope)
        for (s, e) in windows_for(sem, scope):
            idx = c['index'] * sus
            t = e + idx if idx < 0 else s + idx
            if not (s <= t < e):
                if isinstance(scope, tuple) and e == sem.T and (e - s) < scope[0] and idx >= 0:
                    # A3: the pinned trial lies beyond a cut-short last repetition - whether the Pin is void there or the design
                    # is unsatisfiable is not determined by the documentation
                    raise RefUnsupported('A3: Pin index beyond the partial last repetition')
                return False
            for u in range(t, min(t + sus, e)):
                if seq[c['factor']][u] != c['level']:
                    return False
        return True
    if kind == 'Sequential':
        names = level_names(fm[c['factor']])
        P, sus = 0, 1
        for cx in sem.cxs:
            if c['factor'] in cx.factors:
                P, sus = cx.start, cx.sustain
        for t in range(P, sem.T):
            if seq[c['factor']][t] != names[((t - P) // sus) % len(names)]:
                return False
        return True
    if kind == 'LatinSquare':
        return check_latin(fm, sem, c, seq, opts)
    raise ValueError(kind)


def check_latin(fm, sem, c, seq, opts):
    """Two factors with N levels each: after the preamble, every N trials form one diagonal; segment d uses
    diagonal d mod N; within a segment every level of each factor appears once. Orientation of diagonal d:
    (level k of the first factor, level (k +/- d) mod N of the second) - opts['latin_dir']."""
    fs = c['factors']
    if len(fs) == 1:
        return True
    if len(fs) != 2:
        raise RefUnsupported('LatinSquare with more than two factors')
    a, b = fm[fs[0]], fm[fs[1]]
    na, nb = level_names(a), level_names(b)
    if len(na) != len(nb):
        raise RefUnsupported('LatinSquare with unequal sizes')
    N = len(na)
    P, sus = 0, 1
    for cx in sem.cxs:
        if fs[0] in cx.factors:
            P, sus = cx.start, cx.sustain
    if sus != 1:
        raise RefUnsupported('LatinSquare under Nest')
    d = 0
    sign = opts.get('latin_dir', 1)
    for s in range(P, sem.T, N):
        seen = set()
        for t in range(s, min(s + N, sem.T)):
            ka = na.index(seq[fs[0]][t])
            kb = nb.index(seq[fs[1]][t])
            if kb != (ka + sign * d) % N:
                return False
            if ka in seen:
                return False
            seen.add(ka)
        d += 1
    return True


# ---------------------------------------------------------------------------------------------
# enumeration

class Ref:
    pass


def enumerate_valid(spec, sem, opts, limit, fixed=None):
    fm = fmap(spec)
    T = sem.T
    design = [fm[n] for n in sem.design]
    basics = [f for f in design if not is_derived(f)]
    derived = sorted([f for f in design if is_derived(f)], key=lambda f: depth(fm, f))
    excl = set(sem.excludes)
    trial_choices = list(itertools.product(*[[l for l in level_names(f) if (f['name'], l) not in excl] for f in basics]))
    # multiplicity: weighted basic factors that are in no crossing behave like separately named copies
    crossed_all = set(sem.design)
    for cx in sem.cxs:
        crossed_all &= set(cx.factors)
    crossed_any = set(f for cx in sem.cxs for f in cx.factors)
    if not sem.cxs:
        crossed_all = set()
    copy_w = {}
    for f in basics:
        if f['name'] not in crossed_any and any(w > 1 for _, w in f['levels']):
            copy_w[f['name']] = dict((a, b) for a, b in f['levels'])
        elif f['name'] in crossed_any and f['name'] not in crossed_all and any(w > 1 for _, w in f['levels']):
            raise RefUnsupported('weighted factor in some but not all crossings')
    out = {}
    seq = {f['name']: [] for f in design}
    counts = [Counter() for _ in sem.cxs]

    def derive_at(f, t):
        sus = sem.sustain.get(f['name'], 1)
        if not applies(fm, f, t, sus):
            return ''
        w = f['width']
        key = []
        for d in f['deps']:
            for j in range(w):
                idx = t + (j - (w - 1)) * sus
                v = seq[d][idx] if idx >= 0 else None
                key.append(v if v not in (None, '') else NONE)
        lv = lookup(f, '|'.join(key))
        if len(lv) != 1:
            return None
        return lv[0]

    def rec(t):
        if t == T:
            for (c, scope) in sem.cons:
                if not check_constraint(fm, sem, c, scope, seq, opts):
                    return
            key = tuple(tuple(seq[n][i] for n in sem.design) for i in range(T))
            m = 1
            for n, wmap in copy_w.items():
                for v in seq[n]:
                    m *= wmap[v]
            out[key] = m
            if len(out) > limit:
                raise RefOverflow()
            return
        choices_here = trial_choices
        if fixed is not None:
            # membership test of one given sequence: only its own basic-factor values are tried
            want = tuple(fixed[t][sem.design.index(f['name'])] for f in basics)
            choices_here = [want] if want in trial_choices else []
        for vals in choices_here:
            for f, v in zip(basics, vals):
                seq[f['name']].append(v)
            ok = True
            nd = 0
            for f in derived:
                lv = derive_at(f, t)
                if lv is None or (lv != '' and (f['name'], lv) in excl):
                    ok = False
                seq[f['name']].append(lv if lv is not None else '?')
                nd += 1
                if not ok:
                    break
            undo = []
            if ok:
                for n_, sus in sem.sustain.items():
                    if sus > 1 and t % sus != 0 and seq[n_][t] != seq[n_][t - 1]:
                        ok = False
            if ok:
                for i, cx in enumerate(sem.cxs):
                    if t < cx.start:
                        continue
                    combo = tuple(seq[n][t] for n in cx.factors)
                    pos = (t - cx.start) % cx.chunk
                    if pos == 0:
                        undo.append((i, counts[i]))
                        counts[i] = Counter()
                    else:
                        undo.append((i, counts[i].copy()))
                    counts[i][combo] += 1
                    if combo not in cx.combos or counts[i][combo] > cx.combos[combo]:
                        ok = False
                        break
            if ok:
                rec(t + 1)
            for i, old in reversed(undo):
                counts[i] = old
            for f in basics:
                seq[f['name']].pop()
            for f in derived[:nd]:
                seq[f['name']].pop()
    rec(0)
    return out


def option_sets(spec):
    """Alternative readings of under-specified points that this spec actually touches."""
    opts = [{}]
    txt = repr(spec)
    if "'post preamble'" in txt and ("'weight'" in txt):
        opts = [dict(o, a5=v) for o in opts for v in ('unified', 'own')]
    if "'LatinSquare'" in txt:
        opts = [dict(o, latin_dir=v) for o in opts for v in (1, -1)]
    return opts


def _check_names(spec):
    names = {f['name'] for f in spec['factors']}

    def walk(x):
        for c in x.get('constraints', []):
            for n in ([c['factor']] if 'factor' in c else []) + list(c.get('factors', [])):
                if n not in names:
                    raise RefUnsupported('constraint names a factor that is not in the design')
        for k in ('block', 'outer', 'inner'):
            if k in x:
                walk(x[k])
        for y in x.get('blocks', []):
            walk(y)
    walk(spec['block'])


def solve(spec, limit=200000):
    _check_names(spec)
    r = Ref()
    r.readings = []
    r.Ts = []
    r.errors = []
    r.refused = None
    sem0 = None
    for opts in option_sets(spec):
        sem = compile_block(spec, spec['block'], opts)
        if sem0 is None:
            sem0 = sem
        if sem.refused:
            r.refused = sem.refused
            continue
        if sem.errors:
            r.errors = sem.errors
            valid = {}
        else:
            valid = enumerate_valid(spec, sem, opts, limit)
        if not any(valid == x and sem.T == t for x, t in zip(r.readings, r.Ts)):
            r.readings.append(valid)
            r.Ts.append(sem.T)
    r.sem = sem0
    r.design = sem0.design
    r.T = r.Ts[0] if r.Ts else None
    return r


class Checker:
    """Membership oracle for single sequences (no enumeration of the valid set): a sequence is accepted iff some reading
    of the documentation accepts it. Used where the valid set is too large to enumerate (soundness-only checks)."""
    def __init__(self, spec):
        _check_names(spec)
        self.spec = spec
        self.sems = []
        self.refused = None
        self.errors = []
        for opts in option_sets(spec):
            sem = compile_block(spec, spec['block'], opts)
            if sem.refused:
                self.refused = sem.refused
                continue
            if sem.errors:
                self.errors = sem.errors
            self.sems.append((sem, opts))
        self.design = self.sems[0][0].design if self.sems else None
        self.Ts = sorted(set(sem.T for sem, _ in self.sems))
        # multiplicity bookkeeping of enumerate_valid raises for partly crossed weighted factors: detect once
        self.unsupported = None
        try:
            for sem, opts in self.sems:
                if not sem.errors:
                    enumerate_valid(spec, sem, opts, 10, fixed=())
        except RefUnsupported as e:
            self.unsupported = str(e)
        except Exception:
            pass

    def valid(self, seq):
        for sem, opts in self.sems:
            if sem.errors or len(seq) != sem.T:
                continue
            try:
                out = enumerate_valid(self.spec, sem, opts, 10, fixed=seq)
            except (IndexError, ValueError, KeyError):
                continue
            if tuple(seq) in out:
                return True
        return False
