"""Explorers.

E2  explore_choices: stateless, replay-based depth-first exploration of every answer the environment may give at
    every choice point (random draws, solver models, timer firings).  `run(script)` executes the harness body once;
    seams call script.choose(n).  A prefix of recorded choices is replayed, choice 0 is taken afterwards, every choice
    point is recorded with its arity, and every alternative is pushed.  A deviation bound limits the number of
    non-default answers per execution (None = unbounded = the full tree).  Replay divergence is a hard error.

E3  explore_states: breadth-first search over call histories.  A state *is* the history that reaches it (live
    library objects do not copy): successor = rebuild a fresh world, replay history + op.  canon() of the world is hashed
    to deduplicate; the invariant is evaluated in every state.
"""
import collections
from vt.core import HarnessError, canon


class Horizon(BaseException):
    """Raised by Script.choose when an execution exceeds its horizon (number of choice points)."""


class Script:
    def __init__(self, prefix=(), horizon=None, default=None):
        self.prefix = list(prefix)
        self.trace = []          # (choice, arity)
        self.horizon = horizon
        self.default = list(default or [])     # baseline schedule: the "default answer" at each point (0 beyond its end)

    def choose(self, n):
        n = int(n)
        if n <= 0:
            raise HarnessError('choice point with arity %d' % n)
        i = len(self.trace)
        if self.horizon is not None and i >= self.horizon:
            raise Horizon()
        if i < len(self.prefix):
            c = self.prefix[i]
            if not (0 <= c < n):
                raise HarnessError('replay divergence at choice %d: recorded %d, arity now %d' % (i, c, n))
        else:
            c = self.default[i] if i < len(self.default) and 0 <= self.default[i] < n else 0
        self.trace.append((c, n))
        return c

    def default_at(self, i):
        return self.default[i] if i < len(self.default) else 0

    def choices(self):
        return [c for c, _ in self.trace]


class Exploration:
    def __init__(self):
        self.executions = 0
        self.choice_points = 0
        self.max_depth = 0
        self.outcomes = collections.Counter()
        self.complete = True       # False when the execution cap or a horizon was hit
        self.horizon_hits = 0
        self.bound = None


def explore_choices(run, bound=None, cap=None, horizon=None, on_result=None, wall=None, baseline=None):
    """run(script) -> outcome (any; canon()-able).  on_result(script, outcome) is called per execution.
    Returns Exploration."""
    ex = Exploration()
    ex.bound = bound
    import time
    t_end = (time.time() + wall) if wall else None
    stack = [[]]
    while stack:
        prefix = stack.pop()
        if (cap is not None and ex.executions >= cap) or (t_end is not None and ex.executions > 0 and time.time() > t_end):
            ex.complete = False
            break
        sc = Script(prefix, horizon, baseline)
        try:
            out = run(sc)
        except Horizon:
            out = ('horizon',)
            ex.horizon_hits += 1
            ex.complete = False
        if len(sc.trace) < len(prefix):
            raise HarnessError('replay divergence: execution made %d choices, prefix has %d' % (len(sc.trace), len(prefix)))
        ex.executions += 1
        ex.choice_points += len(sc.trace) - len(prefix) if prefix else len(sc.trace)
        ex.max_depth = max(ex.max_depth, len(sc.trace))
        if on_result is not None:
            on_result(sc, out)
        base = sc.choices()
        # a deviation is an answer different from the baseline's (the all-zero schedule unless a baseline is given)
        dev = sum(1 for i, c in enumerate(base[:len(prefix)]) if c != sc.default_at(i))
        if bound is not None and dev >= bound:
            continue
        # push alternatives deepest-first so that the DFS visits in lexicographic order
        for i in range(len(sc.trace) - 1, len(prefix) - 1, -1):
            n = sc.trace[i][1]
            d0 = sc.default_at(i) if sc.default_at(i) < n else 0
            for alt in range(n - 1, -1, -1):
                if alt != d0:
                    stack.append(base[:i] + [alt])
    return ex


def explore_states(make_world, ops, apply_op, canon_state, invariant, depth, enabled=None):
    """BFS over histories.  make_world() -> fresh world; apply_op(world, op) mutates/uses the world and returns an
    observation; canon_state(world) -> JSON-able; invariant(world, history, observations) -> list of violations.
    Returns dict(states, transitions, max_depth, violations [(history, viol)], observations set size)."""
    def build(hist):
        w = make_world()
        obs = []
        for op in hist:
            obs.append(apply_op(w, op))
        return w, obs

    w0, _ = build([])
    seen = {canon(canon_state(w0))}
    frontier = collections.deque([[]])
    states, transitions, maxd = 1, 0, 0
    viols = []
    distinct_obs = set()
    for v in invariant(w0, [], []):
        viols.append(([], v))
    while frontier:
        hist = frontier.popleft()
        if len(hist) >= depth:
            continue
        w, _ = build(hist)
        menu = ops if enabled is None else [o for o in ops if enabled(w, hist, o)]
        for op in menu:
            nh = hist + [op]
            w2, obs = build(nh)
            transitions += 1
            distinct_obs.add(canon(obs[-1]) if obs else '')
            for v in invariant(w2, nh, obs):
                viols.append((nh, v))
            k = canon(canon_state(w2))
            if k not in seen:
                seen.add(k)
                states += 1
                maxd = max(maxd, len(nh))
                frontier.append(nh)
    return {'states': states, 'transitions': transitions, 'max_depth': maxd, 'violations': viols,
            'distinct_observations': len(distinct_obs)}
