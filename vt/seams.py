"""Environment seams: every source of nondeterminism of the library is reached through a module attribute that the
library looks up at call time; the harness rebinds it for the duration of one execution. No edit of /repo needed.

  scripted_random(script)        sampling_strategy.random.random           -> ScriptedRandom (randrange = choice point)
  one_candidate()                UCSolutionEnumerator.generate_random_samples: second call raises StopExploration
  fake_samplers(state)           tools.unigen.pycmsgen / pyunigen          -> fed from an all-models enumerator
  scripted_cryptominisat(order)  tools.cryptominisat.pycryptosat           -> solve() answers in a scripted model order
  smgen_seams(script, fire_at)   scattered_map_core.random / threading / time
  scripted_distribution(script)  distribution.random                        -> menu of values, each draw a choice point
A missing attribute at bind time is a HarnessError (exit 2), never a verdict.
"""
import contextlib
import pycryptosat as _real_pycryptosat
from vt.core import HarnessError
from vt import sat


class StopExploration(BaseException):
    """Ends one harnessed execution early (BaseException: the library's `except Exception` must not swallow it)."""


@contextlib.contextmanager
def rebound(obj, name, value):
    if not hasattr(obj, name):
        raise HarnessError('seam %r.%s does not exist' % (obj, name))
    old = getattr(obj, name)
    setattr(obj, name, value)
    try:
        yield
    finally:
        setattr(obj, name, old)


# ---------------------------------------------------------------------------------------------
# RandomGen

class ScriptedRandom:
    def __init__(self, script):
        self.script = script

    def randrange(self, a, b=None):
        lo, hi = (0, a) if b is None else (a, b)
        return lo + self.script.choose(hi - lo)

    def randint(self, a, b):
        return a + self.script.choose(b - a + 1)

    def random(self):
        raise HarnessError('unexpected random.random() in RandomGen')


@contextlib.contextmanager
def scripted_random(script):
    import sweetpea._internal.sampling_strategy.random as R
    with rebound(R, 'random', ScriptedRandom(script)):
        yield


@contextlib.contextmanager
def one_candidate():
    """Let the first candidate through; a second call of generate_random_samples means the first was rejected."""
    import sweetpea._internal.sampling_strategy.random as R
    orig = R.UCSolutionEnumerator.generate_random_samples
    calls = [0]

    def grs(self, *a, **k):
        calls[0] += 1
        if calls[0] > 1:
            raise StopExploration()
        return orig(self, *a, **k)
    with rebound(R.UCSolutionEnumerator, 'generate_random_samples', grs):
        yield calls


# ---------------------------------------------------------------------------------------------
# CMSGen / UniGen: fakes fed from an all-models enumerator over the clauses the library handed over

class SamplerState:
    """Shared by all fake solver objects of one harnessed call."""
    def __init__(self, cap=None):
        self.clause_sets = []      # one per fake solver object (canonical tuples)
        self.sampling_sets = []
        self.models = None         # full models, one per projected model, canonical order
        self.served = 0
        self.cap = cap
        self.overflow = False
        self.over = None

    def compute(self, clauses, sampling_set):
        if self.models is not None:
            return
        proj = sat.all_models(clauses, over=list(sampling_set), limit=(self.cap + 1) if self.cap else None)
        if self.cap and len(proj) > self.cap:
            self.overflow = True
            raise StopExploration()
        proj.sort(key=lambda m: [-(l > 0) for l in m])
        self.models = proj


def make_fake_cmsgen(state):
    class Solver:
        def __init__(self, seed=None, **kw):
            self.clauses = []
            self.seed = seed

        def add_clause(self, c):
            self.clauses.append(list(c))

        def solve(self, *a, **k):
            vs = sat.variables_of(self.clauses)
            state.clause_sets.append(len(self.clauses))
            # CMSGen is not told the sampling set by the library wrapper: it returns a full model
            if state.models is None:
                full = sat.all_models(self.clauses, over=state.over or vs, limit=(state.cap + 1) if state.cap else None)
                if state.cap and len(full) > state.cap:
                    state.overflow = True
                    raise StopExploration()
                full.sort(key=lambda m: [-(l > 0) for l in m])
                # extend each projected model to one full model
                state.models = []
                for m in full:
                    ext = sat.all_models(self.clauses, over=vs, assumptions=list(m), limit=1)
                    state.models.append(ext[0])
            if not state.models:
                return False, None
            m = state.models[min(state.served, len(state.models) - 1)]
            state.served += 1
            top = max(vs) if vs else 0
            sol = [None] + [False] * top
            for l in m:
                sol[abs(l)] = l > 0
            return True, tuple(sol)

    class Mod:
        pass
    Mod.Solver = Solver
    return Mod


def make_fake_unigen(state):
    class Sampler:
        def __init__(self, *a, **k):
            self.clauses = []

        def add_clause(self, c):
            self.clauses.append(list(c))

        def sample(self, num=None, sampling_set=None, **kw):
            state.sampling_sets.append(list(sampling_set or []))
            state.clause_sets.append(len(self.clauses))
            over = list(sampling_set) if sampling_set else sat.variables_of(self.clauses)
            proj = sat.all_models(self.clauses, over=over, limit=(state.cap + 1) if state.cap else None)
            if state.cap and len(proj) > state.cap:
                state.overflow = True
                raise StopExploration()
            proj.sort(key=lambda m: [-(l > 0) for l in m])
            state.models = proj
            state.served = len(proj)
            if not proj:
                return 0, 0, []
            return 1, 0, [list(m) for m in proj]

    class Mod:
        pass
    Mod.Sampler = Sampler
    return Mod


@contextlib.contextmanager
def fake_samplers(state, over=None):
    """Bind both sampler modules; `over`: projection for the CMSGen fake (the trial-sequence variables)."""
    import sweetpea._internal.core.generate.tools.unigen as U
    state.over = over
    with rebound(U, 'pycmsgen', make_fake_cmsgen(state)), rebound(U, 'pyunigen', make_fake_unigen(state)), \
            rebound(U, 'HAS_PYCMSGEN', True), rebound(U, 'HAS_PYUNIGEN', True):
        yield


# ---------------------------------------------------------------------------------------------
# IterateSATGen: pycryptosat answering in a scripted order

def make_scripted_cryptosat(order, over_n, log):
    """order: 'asc' | 'desc' - which of the remaining models (canonical order of their projection onto 1..over_n)
    the solver returns at each solve()."""
    class Solver:
        def __init__(self, *a, **k):
            self.clauses = []

        def add_clause(self, c):
            self.clauses.append(list(c))

        def solve(self, assumptions=()):
            vs = sat.variables_of(self.clauses)
            over = [v for v in range(1, over_n + 1)]
            s = _real_pycryptosat.Solver()
            for c in self.clauses:
                s.add_clause(c)
            for v in over:
                s.add_clause([v, -v])
            # lexicographic extreme model by deciding the projection variables one by one under assumptions
            fixed = []
            ok, m = s.solve(list(assumptions))
            log.append(ok)
            if not ok:
                return False, None
            for v in over:
                first = v if order == 'asc' else -v
                ok1, m1 = s.solve(list(assumptions) + fixed + [first])
                if ok1:
                    fixed.append(first)
                    m = m1
                else:
                    fixed.append(-first)
                    ok2, m = s.solve(list(assumptions) + fixed)
                    if not ok2:
                        raise HarnessError('scripted solver lost satisfiability')
            return True, m

    class Mod:
        pass
    Mod.Solver = Solver
    return Mod


@contextlib.contextmanager
def scripted_cryptominisat(order, over_n, log):
    import sweetpea._internal.core.generate.tools.cryptominisat as C
    with rebound(C, 'pycryptosat', make_scripted_cryptosat(order, over_n, log)), rebound(C, 'HAS_PYCRYPTOSAT', True):
        yield


# ---------------------------------------------------------------------------------------------
# SMGen: random() draws, the threading.Timer and the clock

class ProbeFloat(float):
    """Returned by the scripted random(): `int(random() * n)` reveals the arity n at the multiplication, and the
    product is `choice + 0.5`, so int() yields exactly the scripted choice - exact branching without guessing n."""
    def __new__(cls, script):
        o = float.__new__(cls, 0.0)
        o.script = script
        return o

    def __mul__(self, n):
        return float(self.script.choose(int(n))) + 0.5
    __rmul__ = __mul__


class FakeTimer:
    """Records start/cancel; never runs a real thread. The harness may fire the handler itself."""
    instances = []

    def __init__(self, interval, function, args=None, kwargs=None):
        self.interval = interval
        self.function = function
        self.started = False
        self.cancelled = False
        FakeTimer.instances.append(self)

    def start(self):
        self.started = True

    def cancel(self):
        self.cancelled = True

    def fire(self):
        """What threading.Timer would do when the interval elapses: call function() in its own thread, where an
        exception only prints a traceback."""
        if self.started and not self.cancelled:
            try:
                self.function()
            except Exception as e:
                return e
        return None


@contextlib.contextmanager
def smgen_seams(script=None, on_draw=None):
    """Bind SMGen's nondeterminism. script None -> real random() (still no real timer thread)."""
    import sweetpea._internal.sampling_strategy.scattered_map_core as SM

    class FakeThreading:
        Timer = FakeTimer
    FakeTimer.instances = []
    clock = [0.0]

    def fake_time():
        clock[0] += 0.001
        return clock[0]

    def scripted():
        if on_draw is not None:
            on_draw()
        return ProbeFloat(script)
    ctxs = [rebound(SM, 'threading', FakeThreading), rebound(SM, 'time', fake_time)]
    if script is not None:
        ctxs.append(rebound(SM, 'random', scripted))
    with contextlib.ExitStack() as st:
        for c in ctxs:
            st.enter_context(c)
        try:
            yield FakeTimer.instances
        finally:
            try:
                SM.reset_state()
            except Exception:
                pass
