"""Regenerates /verif/MANIFEST.json from the table below (python -m vt.manifest)."""
import json
from pathlib import Path

ROOT = Path(__file__).resolve().parent.parent
PY = '/venv/bin/python'

# property -> (technique, level text, level note, design ref)
CHECKS = {}
NOT_APPLICABLE = {}


def check(pid, technique, text, note, ref):
    CHECKS[pid] = (technique, text, note, ref)


check('C10', 'exhaustive finite-domain enumeration (all n,k,relation x all 2^n assignments) on the real encoder',
      'Every (n<=6 quick / 9 thorough, k<=n+4, EQ/LT/GT, three variable numberings, request pairs) is compiled by the real '
      'combine_cnf_with_requests and every assignment of the request variables is decided by enumerating all satisfying '
      'extensions; bounded-exhaustive, no sampling.',
      'pycryptosat as SAT oracle (truth-table cross-check <=16 variables); bounds n<=6/9.', 'DESIGN.md section 4, C10')

check('C11', 'exhaustive enumeration of all formula trees up to depth 2 x all assignments, on the real converters',
      'All ~27k formula trees of depth<=2 over atoms {1,2,3,-1} (And/Or arity 0..2, If, Iff, Not; thorough adds arity-3 and a depth-3 '
      'slice), two fresh-variable starts; Tseitin: every assignment has exactly one / no extension (all extensions enumerated) and new '
      'variables lie in the reported fresh range; naive: structurally evaluated equivalent, no new variable; switching: exists-fresh equivalence.',
      'pycryptosat as SAT oracle for extension enumeration; formula semantics as in module docstring.', 'DESIGN.md section 4, C11')

check('C12', 'exhaustive enumeration of circuit parameters x all input assignments, all extensions enumerated',
      'half/full/saturating adders, ripple_carry widths 1..4(5), ripple_saturate w<=s<=5(6), pop_count n<=8(11) x saturate_at 0..5(6): every input '
      'assignment has exactly one satisfying extension and its output bits equal the (saturating) binary sum.',
      'pycryptosat as SAT oracle (truth-table cross-check <=16 variables); saturating representation as derived from assert_k_of_n.',
      'DESIGN.md section 4, C12')

check('C13', 'exhaustive enumeration of parameter tuples x all indices; explicit-state search over shared-memo call histories',
      'Every unranking function is run on every index 0..N-1 for all parameter tuples up to the bound and its image compared with the '
      'itertools-generated arrangement set (bijection, count == counting function == brute force); BFS over histories of count/unrank calls on '
      'one shared PermutationMemo (state = memo contents) checks every return against the fresh-memo value.',
      'bounded parameters (n<=7/9 etc.); the "larger random tuples" part of the quantifier is sampling and is not claimed.',
      'DESIGN.md section 4, C13')

check('C21', 'exhaustive enumeration of experiments lists x factor selections x trial-index selections, stdout parsed',
      'Every experiments list of length<=3 over two small factor pools (1-2 experiments), each of 6 factor selections (via block or factors=) '
      'and every trial-index subset is passed to the real tabulate_experiments; the printed table is parsed and every row compared with an '
      'independent count (frequency and percentage of the selected trials).',
      'experiments in one list have equal length; level names without spaces.', 'DESIGN.md section 4, C21')

check('C27', 'exhaustive enumeration of small CNF objects x support sizes x all scripted solver assignments (environment-answer exploration)',
      'All clause multisets up to the bound are written by the real serialiser and read back by an independent strict DIMACS reader and by the '
      'library parsers; the solver modules are replaced at their import seams by recording fakes that are scripted with every assignment, so '
      'solver input, parsed output and the blocking clause of update_file (checked against all 2^support assignments) are compared exactly.',
      'every support variable occurs in a clause (true of compiled designs); fakes mimic the pycryptosat/pyunigen/pycmsgen interface.',
      'DESIGN.md section 4, C27')

check('C28', 'exhaustive enumeration of clause sets x request lists x all assignments; three-way comparison',
      'For every clause set / request list up to the bound the OPB text written by the real exporter is evaluated by an independent '
      'pseudo-Boolean evaluator on all 8 assignments and compared with the arithmetic meaning and with satisfiability of the SAT encoding; '
      'the ILP blocking constraint is checked to exclude exactly the previous solution.',
      'Gurobi absent: the text, not a solver run, is checked; pycryptosat as SAT oracle.', 'DESIGN.md section 4, C28')

DESIGN_NOTE = ('reference model vt/ref.py (documented semantics; readings where under-specified, DESIGN.md section 3); bounds: designs of the '
               'stated strata with <= 400 (quick) / 4000 (thorough) valid sequences; pycryptosat as SAT oracle')

check('C02', 'bounded-exhaustive design-space enumeration; per design the real IterateSATGen loop is run to exhaustion and compared with a brute-force reference set',
      'Every design of strata S1-S6 (single CrossBlock with every constraint class, Exclude, weights, window geometry, Repeat, MultiCrossBlock, Nest) '
      'is built from fresh objects; IterateSATGen is asked for more sequences than exist and the returned multiset must equal the complete '
      'reference multiset (so: nothing invalid, nothing missing, nothing twice, [] iff none).', DESIGN_NOTE, 'DESIGN.md section 4, C02')

check('C07', 'bounded-exhaustive design-space enumeration; differential exhaustion of two independent samplers (no oracle)',
      'Every design of strata S1-S6 that both IterateSATGen and RandomGen accept is exhausted through both (fresh blocks) and the two sets of '
      'name-level sequences and the trial counts must be equal.', 'no reference model involved; designs with <= 400/4000 sequences; exceptions on either side are C08 subject and skipped here',
      'DESIGN.md section 4, C07')

check('C08', 'bounded-exhaustive design-space enumeration incl. an edge stratum; every strategy called on every accepted design in a crash-isolating worker pool',
      'Every accepted design of strata S1-S6 and the edge stratum S9 (k >= T, k >= repetition length, Pin out of range, one-level factors, empty '
      'crossing, everything excluded) x {IterateSATGen, RandomGen, CMSGen, UniGen, IterateGen, UniformGen} x n in {1,3} with the real solvers must '
      'return a list: any exception, and any termination of the interpreter (detected by the worker pool), is a violation.',
      'constructor refusals (RuntimeError/ValueError at construction) mean "not accepted"; refusal whitelist empty', 'DESIGN.md section 4, C08')

check('C16', 'bounded-exhaustive design-space enumeration; reported trial count vs documented arithmetic; one sequence per strategy measured',
      'For every design of strata S1-S6 Block.trials_per_sample() must equal the trial count the reference computes from the documented rules '
      '(weights, exclusions with require_complete_crossing=False, preamble, MinimumTrials, alignment/mode, Repeat, Nest), and one sequence from '
      'each of the seven strategies (SMGen where it does not refuse) must have exactly that many entries in every column.',
      DESIGN_NOTE + '; designs the documentation gives no sequences (complete crossing impossible) are skipped', 'DESIGN.md section 4, C16')

check('C01', 'bounded-exhaustive design-space enumeration x exhaustive exploration of solver answers (all models through fake CMSGen/UniGen at the import seam; IterateSATGen exhausted under 3 solver-answer orders)',
      'For every design of strata S1-S6 every model of the compiled formula is returned once by enumerating fakes bound where the library imports '
      'pycmsgen/pyunigen, and the IterateSATGen loop is exhausted with the real solver and with a scripted solver answering the smallest/largest '
      'remaining model; every sequence decoded by the real pipeline must be in the brute-force reference set.', DESIGN_NOTE, 'DESIGN.md section 4, C01')

check('C03', 'bounded-exhaustive design-space enumeration x all-SAT over all variables of the compiled formula',
      'For every design of strata S1-S6 all satisfying assignments of the complete build_cnf formula are enumerated (blocking clauses over every '
      'variable): #models must equal #distinct projections onto the trial-sequence variables, onto support_variables(), and onto the sampling set '
      'save_cnf declares; every projection decodes.', 'pycryptosat as SAT oracle (truth-table cross-check <= 16 variables); <= 1500/20000 models per design',
      'DESIGN.md section 4, C03')

check('C04', 'bounded-exhaustive design-space enumeration x stateless DFS over every random draw of one RandomGen candidate (scripted PRNG seam, prefix replay)',
      'For every design of strata S1-S6 the complete choice tree of random.randrange draws behind one candidate is explored on the real sampler; '
      'every accepted candidate, post-processed by the real synthesize_trials, must be in the reference set.', DESIGN_NOTE + '; candidate trees <= 2500/40000 leaves',
      'DESIGN.md section 4, C04')

check('C05', 'bounded-exhaustive design-space enumeration x stateless DFS over every candidate index RandomGen can draw; bijection oracle',
      'Same exploration as C04; the accepted candidates must be in bijection with the reference multiset (each valid sequence from exactly '
      'multiplicity candidates) and the number of leaves must equal the number of keys the sampler believes it draws from.',
      DESIGN_NOTE + '; candidate trees <= 2500/40000 leaves', 'DESIGN.md section 4, C05')

check('C06', 'bounded-exhaustive design-space enumeration; real RandomGen exhausted under two PRNG seeds; reported count compared',
      'For every design of strata S1-S6 whose candidate space is <= 3000/30000 keys RandomGen is asked for more sequences than exist under two '
      'seeds: the returned multiset must equal the reference multiset and the call must return; for designs without any rejection-enforced '
      'feature metrics[solution_count] must equal the number of valid sequences.', DESIGN_NOTE, 'DESIGN.md section 4, C06')

check('C09', 'bounded-exhaustive design-space enumeration x requested counts {1,2,avail-1,avail,avail+1,2*avail} x 3 strategies',
      'For every design of strata S1, S1x, S2, S4 with 1..120/600 solutions IterateSATGen, RandomGen and IterateGen are called with each requested '
      'count: the number returned must be min(requested, available), no solution twice (identical prints at most multiplicity times), all valid.',
      DESIGN_NOTE, 'DESIGN.md section 4, C09')

check('C14', 'bounded-exhaustive design-space enumeration x every (trial, factor, level) triple x all one-hot assignments (Hamming-2 neighbourhoods beyond 3000/50000)',
      'For every design of strata S1-S4, S6 the variable map is checked to be injective onto 1..variables_per_sample(), inverted by decode_variable and '
      'consistent with factor_variables_for_trial / build_variable_lists; encoder auxiliaries start above it; Gen.decode of every one-hot assignment '
      'returns exactly the chosen names with blanks where a factor does not apply.',
      'applicability of derived factors per trial from the reference model (documented start/stride)', 'DESIGN.md section 4, C14')

check('C15', 'exhaustive enumeration of the predicate space: all 256 subset-valued tables over 4 window inputs x ElseLevel x 5 geometries x 3 roles',
      'Every table mapping each window input to a subset of two levels is built into a real derived factor: overlapping tables must make the constructor '
      'raise ValueError, uncovered inputs must make every strategy return [] without raising, and total unambiguous tables must give exactly the '
      'reference set through IterateSATGen and RandomGen (labels, blanks before start / off stride, None only before trial 0).',
      'reference model for total tables; stride>1 factors cannot be crossed (documented refusal)', 'DESIGN.md section 4, C15')

check('C17', 'bounded-exhaustive design-space enumeration x all well-formed candidate sequences (full product <= 1500/20000, else valid + 1-edit + swap neighbourhoods)',
      'For every design of strata S1-S6 every well-formed candidate is given to sample_mismatch_experiment on the real block: {} iff the candidate is in '
      'the reference set; exceptions and accepted wrong-length sequences are violations.', DESIGN_NOTE + '; designs without sequences by construction skipped',
      'DESIGN.md section 4, C17')

check('C23', 'bounded-exhaustive design-space enumeration; metamorphic comparison with the copy-expanded twin design (both exhausted)',
      'Every weighted design of strata S2/S2s (constraints not naming a weighted level) and multi-crossing designs with a partly crossed weighted factor is '
      'compared with its twin in which weight-w levels are w separately named levels: set equality and no duplicates for fully crossed factors, multiset '
      'equality otherwise; additionally compared with the reference multiset.', 'designs with <= 500/6000 sequences', 'DESIGN.md section 4, C23')

check('C24', 'bounded-exhaustive enumeration of the law parameter space; differential exhaustion of both sides of each documented law',
      'L1 MultiCrossBlock == Merge of CrossBlocks (7 crossing configurations x 3 modes x 3 alignments x constraints), L2 Repeat == Merge REPEAT, L3 Repeat(b,[]) == '
      'Merge([b]) == b, L4 CrossBlock == MultiCrossBlock WEIGHT, LD Merge(blocks) == Merge(blocks, [], REPEAT, alignment of the first block), H L3 after other default-argument '
      'combinators were built in the same process: both sides built fresh, exhausted through IterateSATGen, equal multisets and trial counts; '
      'exactly one side constructible is a violation.', 'no oracle; instances with <= 600/5000 sequences', 'DESIGN.md section 4, C24')

check('C25', 'bounded-exhaustive enumeration of outer/inner block pairs; exhaustion vs reference, structural group oracle, associativity law',
      'Every design of stratum S6 is exhausted through IterateSATGen and RandomGen and compared with the reference set (groups of inner length, outer factors '
      'constant per group, outer crossing over groups, inner crossing/constraints per group); outer-factor constancy and T = T_outer*T_inner are checked '
      'directly; Nest(a,Nest(b,c)) == Nest(Nest(a,b),c) for all ordered triples of a block pool.', DESIGN_NOTE, 'DESIGN.md section 4, C25')

check('C26', 'bounded-exhaustive enumeration of constraint placements (inner block vs combinator) under Repeat, Merge and Nest; exhaustion vs reference',
      'For each constraint class, combinator and inner block (with/without preamble, whole/partial last repetition) both placements are exhausted through '
      'IterateSATGen and RandomGen and compared with the reference set computed with per-repetition / whole-sequence windows; pairs whose placements differ '
      'are counted.', DESIGN_NOTE + '; A3/A4 exclusions', 'DESIGN.md section 4, C26')

check('C18', 'explicit-state search over construction histories on shared factor/constraint objects (all histories up to depth 3/4; canonical states counted)',
      '10 worlds (one shared constraint object each) x menu of 14 constructions (CrossBlocks of different geometry, MultiCrossBlock, Repeat, Nest, default-argument Merge, '
      'preamble block, combinator-level constraints, one shared outer block object, Transition-crossed Nest outer): every history is replayed on a fresh world; for every block built, the exhausted IterateSATGen set and the mismatch verdicts on a probe '
      'list must equal those of the same block built alone from fresh objects.', 'IterateSATGen and the mismatch checker as observations', 'DESIGN.md section 4, C18')

check('C19', 'explicit-state search over library-call histories on one block (all histories of length <= 3/4 over an 11-operation alphabet; canonical block state hashed)',
      '8 representative blocks (plain, implied derived, hidden weight factor, continuous, derived continuous + window + constraint, Repeat with preamble, '
      'LatinSquare, hidden weight factor + continuous factor): '
      'after every history the canonical block state must equal the initial one, no call may raise, and every synthesize_trials call must return valid '
      'sequences with the same columns as the first.', 'discrete validity by the reference membership oracle', 'DESIGN.md section 4, C19')

check('C20', 'bounded-exhaustive design-space enumeration x {synthesized results, all well-formed experiment lists of <= 2 experiments x <= 2 trials in every key order}',
      'For every discrete design of strata S1, S2, S4, S6 (hidden weight factors, implied factors, Repeat, Nest) the three conversions are applied to '
      'synthesized and to arbitrary well-formed experiments lists: tuples, dicts and CSV rows must equal the given values per experiment and trial in '
      'design order; no HiddenName key or column; synthesized results carry exactly the declared factor names.',
      'tuple/column order = declaration order of the design; single-block weighted designs also with a continuous factor in the design (A9 resolved, F38)', 'DESIGN.md section 4, C20')

check('C22', 'bounded design enumeration x stateless DFS over every draw of the continuous samplers (distribution.random seam / custom functions), deviation bound 2/3, horizon',
      'Designs with a base continuous factor, a same-trial derived factor, a window factor (width 2-3, stride 1-2, start None/0/late), a cumulative factor '
      'and 0-2 ContinuousConstraints: for every draw schedule within the deviation bound every returned sequence has one value per trial, satisfies all '
      'predicates, returns the draws of the accepted attempt, and its derived/window/cumulative values are recomputed from the same returned sequence '
      '(NaN exactly before start, off stride, before trial 0); discrete part valid.', 'T <= 4; menu of 3 draw values; discrete validity by membership oracle',
      'DESIGN.md section 4, C22')

check('C29', 'bounded-exhaustive design-space enumeration x stateless DFS over SMGen random() draws (arity-revealing probe), deviation bound 1/2, horizon; fake timer fired at scripted points',
      'For every design of strata S1, S1x, S2, S4, S6 every draw schedule within the deviation bound (and the timer handler fired at no/one draw) is run on the '
      'real SMGen: the outcome must be a refusal raised by _cexit or sequences that are all valid for the design; any other exception is an internal failure.',
      DESIGN_NOTE + '; timer modelled at its hand-over points only', 'DESIGN.md section 4, C29')


def build():
    props = [json.loads(l) for l in (ROOT / 'properties.jsonl').read_text().splitlines() if l.strip()]
    checks = []
    for p in props:
        pid = p['id']
        if pid not in CHECKS:
            continue
        tech, text, note, ref = CHECKS[pid]
        checks.append({
            'property_id': pid,
            'quick_cmd': '%s -m vt.check %s --tier quick' % (PY, pid),
            'thorough_cmd': '%s -m vt.check %s --tier thorough --wall 5400' % (PY, pid),
            'evidence_file': 'evidence/%s.json' % pid,
            'replay_cmd_template': '%s -m vt.check %s --replay {path}' % (PY, pid),
            'engine': 'vt',
            'level_claimed': {'category': 'model_checking', 'text': text, 'design_ref': ref},
            'level_note': note,
            'technique': tech,
        })
    na = []
    for p in props:
        if p['id'] not in CHECKS:
            na.append({'property_id': p['id'],
                       'reason': NOT_APPLICABLE.get(p['id'], 'check not built yet (planned in DESIGN.md section 4); not claimed until it exists')})
    man = {
        'version': 1,
        'setup_cmd': '%s -m compileall -q vt && mkdir -p evidence replays' % PY,
        'hooks': {
            'guard': 'SWEETPEA_VERIF',
            'enable': 'none required: all nondeterminism seams are module attributes rebound by the harness at run time; no source hook exists in /repo',
            'baseline_off_cmd': 'cd /repo && /venv/bin/python -m pytest -ra -q -p no:cacheprovider --timeout=900 --continue-on-collection-errors',
            'source_commits': [],
            'add_only': True,
        },
        'engines': [{'name': 'vt', 'path': 'vt/', 'serves_properties': sorted(CHECKS),
                     'kind_free_text': 'hand-written bounded-exhaustive explorer for Python: design-space enumeration, '
                                       'environment-answer DFS with prefix replay, explicit-state BFS over call histories, '
                                       'finite-domain enumeration of pure functions; all on the real implementation'}],
        'checks': checks,
        'not_applicable': na,
        'notes': 'All checks import sweetpea from /repo (editable install in /venv), i.e. the current working tree. '
                 'Exit 0 ok / 1 VIOLATION / 2 harness error. Known findings: known_findings.json. '
                 'Thorough commands carry an overall wall cap (--wall 5400 s; VERIF_WALL or a larger --wall lifts it): under the cap the strata are '
                 'interleaved simplest-first and items not started are reported in the evidence (items_not_run_wall_cap, exhaustive=false), '
                 'never counted as held.',
    }
    (ROOT / 'MANIFEST.json').write_text(json.dumps(man, indent=1) + '\n')
    return man


if __name__ == '__main__':
    m = build()
    print('checks:', len(m['checks']), 'not_applicable:', len(m['not_applicable']))
