"""Shared machinery: worker pool with per-item wall budget, evidence writer, replay files,
known-findings matching, VIOLATION / KNOWN-FINDING lines.

A check module (vt/checks/cNN.py) provides

    PROP        property id
    RULE        text: how cases are enumerated and what makes one non-trivial
    ASSUMPTIONS list of strings
    BUDGET_S    per-item wall budget in seconds (dict tier -> seconds, or number)
    items(tier, seed)      -> iterable of JSON-able work items (deterministic)
    run_item(item)         -> result dict (see below); runs inside a worker process
    finalize(results,tier) -> optional dict merged into coverage (may contain 'violations': [viol...])

Result dict:
    status      'ok' | 'violation' | 'skip' | 'timeout'
    viols       list of {'kind': str, 'sig': {flat dict}, 'detail': {...}}  (status == 'violation')
    states, transitions, validated   integers (what the item explored)
    nontrivial  bool
    outcome     small JSON value used to count distinct observed outcomes
    skip        reason (status == 'skip')
"""
import contextlib
import hashlib
import io
import itertools
import json
import multiprocessing
import os
import shutil
import signal
import subprocess
import sys
import tempfile
import time
import traceback
import warnings
from pathlib import Path

ROOT = Path(__file__).resolve().parent.parent
EVIDENCE = Path(os.environ.get('VERIF_EVIDENCE_DIR') or (ROOT / 'evidence'))
REPLAYS = Path(os.environ.get('VERIF_REPLAY_DIR') or (ROOT / 'replays'))
KNOWN = ROOT / 'known_findings.json'
PY = sys.executable


class ItemTimeout(BaseException):
    """Raised from SIGALRM; BaseException so that the library's `except Exception` cannot swallow it."""


class HarnessError(Exception):
    """A fault of the verification machinery (never a property verdict)."""


def canon(obj):
    return json.dumps(obj, sort_keys=True, default=str, separators=(',', ':'))


def digest(obj, n=12):
    return hashlib.sha1(canon(obj).encode()).hexdigest()[:n]


def quiet(f, *a, **k):
    """Call f with stdout/stderr captured (the library prints progress and errors)."""
    buf = io.StringIO()
    with contextlib.redirect_stdout(buf), contextlib.redirect_stderr(buf):
        return f(*a, **k)


def quiet_out(f, *a, **k):
    buf = io.StringIO()
    with contextlib.redirect_stdout(buf), contextlib.redirect_stderr(buf):
        r = f(*a, **k)
    return r, buf.getvalue()


def ok(states=1, transitions=1, validated=0, nontrivial=True, outcome=None, **extra):
    r = {'status': 'ok', 'states': states, 'transitions': transitions, 'validated': validated,
         'nontrivial': nontrivial, 'outcome': outcome}
    r.update(extra)
    return r


def skip(reason, **extra):
    r = {'status': 'skip', 'skip': reason, 'states': 0, 'transitions': 0, 'validated': 0,
         'nontrivial': False, 'outcome': None}
    r.update(extra)
    return r


def viol(kind, sig=None, **detail):
    s = {'kind': kind}
    s.update(sig or {})
    return {'kind': kind, 'sig': s, 'detail': detail}


def bad(viols, states=1, transitions=1, validated=0, nontrivial=True, outcome=None, **extra):
    if isinstance(viols, dict):
        viols = [viols]
    r = {'status': 'violation', 'viols': viols, 'states': states, 'transitions': transitions,
         'validated': validated, 'nontrivial': nontrivial, 'outcome': outcome}
    r.update(extra)
    return r


# ---------------------------------------------------------------------------------------------
# worker side

_SCRATCH = None


def _alarm(signum, frame):
    raise ItemTimeout()


def _init_worker(scratch_root):
    global _SCRATCH
    warnings.simplefilter('ignore')
    _SCRATCH = tempfile.mkdtemp(prefix='w', dir=scratch_root)
    os.chdir(_SCRATCH)
    signal.signal(signal.SIGALRM, _alarm)
    # the library must never try to fetch solver binaries
    os.environ.setdefault('SWEETPEA_EXTERNAL_DOCKER_MODE', '0')


def load_check(name):
    import importlib
    return importlib.import_module('vt.checks.' + name.lower())


def run_item_guarded(mod, item, budget):
    """Run one item under the wall budget. Never raises (except KeyboardInterrupt)."""
    t0 = time.time()
    signal.signal(signal.SIGALRM, _alarm)
    signal.setitimer(signal.ITIMER_REAL, budget)
    try:
        res = mod.run_item(item)
    except ItemTimeout:
        res = {'status': 'timeout', 'states': 0, 'transitions': 0, 'validated': 0, 'nontrivial': False,
               'outcome': None}
    except HarnessError as e:
        res = {'status': 'harness_error', 'error': ''.join(traceback.format_exception(type(e), e, e.__traceback__))[-3000:],
               'states': 0, 'transitions': 0, 'validated': 0, 'nontrivial': False, 'outcome': None}
    except KeyboardInterrupt:
        raise
    except BaseException as e:  # a bug in the harness itself: reported as harness error, exit 2
        res = {'status': 'harness_error', 'error': ''.join(traceback.format_exception(type(e), e, e.__traceback__))[-3000:],
               'states': 0, 'transitions': 0, 'validated': 0, 'nontrivial': False, 'outcome': None}
    finally:
        signal.setitimer(signal.ITIMER_REAL, 0)
    res['wall'] = round(time.time() - t0, 4)
    # clean stray temp files of the library
    try:
        for p in os.listdir('.'):
            if p.endswith(('.cnf', '.opb', '.out', '.csv', '.sol')):
                with contextlib.suppress(OSError):
                    os.unlink(p)
    except OSError:
        pass
    return res


def _work(args):
    name, idx, item, budget = args
    mod = load_check(name)
    res = run_item_guarded(mod, item, budget)
    return idx, res


# ---------------------------------------------------------------------------------------------
# crash- and hang-proof worker pool: long-lived workers (no fork per execution), one pipe each; a worker that dies
# (a C extension calling exit(), a segfault) or overruns the hard wall limit is recorded for the item in flight and
# replaced, so the run always terminates and never loses an item.

def _worker_main(conn, name, scratch_root, budget):
    _init_worker(scratch_root)
    mod = load_check(name)
    while True:
        try:
            msg = conn.recv()
        except EOFError:
            break
        if msg is None:
            break
        idx, item = msg
        res = run_item_guarded(mod, item, budget)
        try:
            conn.send((idx, res))
        except Exception as e:
            conn.send((idx, {'status': 'harness_error', 'error': 'unpicklable result: %r' % e, 'states': 0, 'transitions': 0,
                             'validated': 0, 'nontrivial': False, 'outcome': None}))
    os._exit(0)


def _dead_result(kind, detail):
    return {'status': kind, 'detail': detail, 'states': 0, 'transitions': 0, 'validated': 0, 'nontrivial': False, 'outcome': None}


def run_pool(name, items, results, budget, scratch_root, jobs, maxtasks=None, deadline=None, prior=None):
    import collections
    from multiprocessing.connection import wait
    ctx = multiprocessing.get_context('fork')
    hard = 3 * budget + 60

    def spawn():
        a, b = ctx.Pipe()
        p = ctx.Process(target=_worker_main, args=(b, name, scratch_root, budget), daemon=True)
        p.start()
        b.close()
        return {'proc': p, 'conn': a, 'idx': None, 't0': None, 'done': 0, 'hist': []}

    pending = collections.deque(range(len(items)))
    workers = [spawn() for _ in range(jobs)]
    remaining = len(items)
    try:
        while remaining:
            if deadline is not None and pending and time.time() > deadline:
                # overall wall cap (VERIF_WALL / --wall): items not started are reported as not run, never as held
                for i in pending:
                    results[i] = dict(_dead_result('skip', 'not started: overall wall cap reached'), skip='not_run_wall_cap')
                remaining -= len(pending)
                pending.clear()
            for w in workers:
                if w['idx'] is None and pending:
                    i = pending.popleft()
                    w['idx'], w['t0'] = i, time.time()
                    if prior is not None:
                        prior[i] = list(w['hist'])
                    w['hist'].append(i)
                    w['conn'].send((i, items[i]))
            busy = [w for w in workers if w['idx'] is not None]
            ready = wait([w['conn'] for w in busy], timeout=2.0)
            now = time.time()
            for k, w in enumerate(workers):
                if w['idx'] is None:
                    continue
                replace = False
                if w['conn'] in ready:
                    try:
                        idx, res = w['conn'].recv()
                        results[idx] = res
                        w['done'] += 1
                        if maxtasks and w['done'] >= maxtasks:
                            replace = True
                    except (EOFError, ConnectionResetError, OSError):
                        w['proc'].join(5)
                        results[w['idx']] = _dead_result('crash', 'worker process died (exit code %s) while running this item'
                                                         % w['proc'].exitcode)
                        replace = True
                    remaining -= 1
                    w['idx'] = None
                elif now - w['t0'] > hard:
                    results[w['idx']] = _dead_result('timeout', 'hard wall limit %ds: worker killed' % hard)
                    remaining -= 1
                    w['idx'] = None
                    replace = True
                if replace:
                    try:
                        w['proc'].kill()
                    except Exception:
                        pass
                    w['proc'].join(5)
                    w['conn'].close()
                    workers[k] = spawn()
    finally:
        for w in workers:
            try:
                w['conn'].send(None)
            except Exception:
                pass
        for w in workers:
            w['proc'].join(2)
            if w['proc'].is_alive():
                w['proc'].kill()


def run_isolated(name, item, budget, history=()):
    """One item in a forked child (used by --replay so that a library call that kills the process is still a verdict);
    `history`: items executed before it in the SAME process (a violation that needs state left behind by earlier work)."""
    seq = list(history) + [item]
    results = [None] * len(seq)
    scratch_root = tempfile.mkdtemp(prefix='vt_replay_')
    try:
        run_pool(name, seq, results, budget, scratch_root, 1)
    finally:
        shutil.rmtree(scratch_root, ignore_errors=True)
    return results[-1]


# ---------------------------------------------------------------------------------------------
# known findings

def load_known():
    if not KNOWN.exists():
        return []
    data = json.loads(KNOWN.read_text())
    return [e for e in data.get('findings', [])]


def match_known(prop, v, known):
    """Return the known-finding entry matching violation v (all keys of entry['match'] equal in v['sig'])."""
    for e in known:
        if e.get('property') != prop:
            continue
        m = e.get('match', {})
        sig = v['sig']
        if all(k in sig and (sig[k] in m[k] if isinstance(m[k], list) else sig[k] == m[k]) for k in m):
            return e
    return None


# ---------------------------------------------------------------------------------------------
# driver

def budget_of(mod, tier):
    b = getattr(mod, 'BUDGET_S', 20)
    if isinstance(b, dict):
        return b[tier]
    return b


def run_check(name, tier, seed, jobs=None, max_replays=12, limit=None, triage=False, wall=None):
    mod = load_check(name)
    prop = mod.PROP
    t0 = time.time()
    items = list(mod.items(tier, seed))
    if limit:
        items = items[:limit]
    if wall and any(isinstance(it, dict) and it.get('tag') for it in items):
        # under an overall wall cap the strata are interleaved (each still simplest-first), so that whatever is not
        # reached is the tail of every stratum rather than the whole of the later ones
        groups = {}
        for it in items:
            groups.setdefault(it.get('tag') if isinstance(it, dict) else None, []).append(it)
        items = [it for row in itertools.zip_longest(*groups.values()) for it in row if it is not None]
    budget = budget_of(mod, tier)
    scratch_root = tempfile.mkdtemp(prefix='vt_%s_' % prop)
    results = [None] * len(items)
    prior = {}
    jobs = jobs or int(os.environ.get('VERIF_JOBS', '0')) or min(16, os.cpu_count() or 1)
    try:
        if jobs == 1 and os.environ.get('VERIF_INPROCESS'):
            _init_worker(scratch_root)
            for i, it in enumerate(items):
                results[i] = _work((name, i, it, budget))[1]
            os.chdir(ROOT)
        else:
            run_pool(name, items, results, budget, scratch_root, min(jobs, max(1, len(items))),
                     getattr(mod, 'MAXTASKS', None), deadline=(t0 + wall) if wall else None, prior=prior)
    finally:
        shutil.rmtree(scratch_root, ignore_errors=True)

    extra = {}
    fin_viols = []
    if hasattr(mod, 'finalize'):
        extra = mod.finalize(items, results, tier) or {}
        fin_viols = extra.pop('violations', [])

    known = load_known()
    counts = {'ok': 0, 'violation': 0, 'skip': 0, 'timeout': 0, 'harness_error': 0, 'crash': 0}
    crash_is_violation = bool(getattr(mod, 'CRASH_IS_VIOLATION', False))
    for it, res in zip(items, results):
        if res['status'] == 'crash' and crash_is_violation:
            res['status'] = 'violation'
            sigf = getattr(mod, 'crash_sig', None)
            res['viols'] = [viol('process_died', sigf(it) if sigf else {}, detail=res.get('detail'))]
    states = transitions = validated = 0
    outcomes = set()
    nontrivial = set()
    skips = {}
    unlisted = []      # (item, viol)
    listed = {}        # finding id -> (entry, count)
    harness_errors = []
    for it, res in zip(items, results):
        st = res['status']
        counts[st] = counts.get(st, 0) + 1
        states += res.get('states', 0)
        transitions += res.get('transitions', 0)
        validated += res.get('validated', 0)
        if res.get('outcome') is not None:
            outcomes.add(canon(res['outcome']))
        if res.get('nontrivial'):
            nontrivial.add(digest(it))
        if st == 'skip':
            skips[res.get('skip', '?')] = skips.get(res.get('skip', '?'), 0) + 1
        if st == 'harness_error':
            harness_errors.append((it, res.get('error')))
        if st == 'violation':
            for v in res['viols']:
                e = match_known(prop, v, known)
                if e is not None:
                    ent = listed.setdefault(e['id'], [e, 0, it, v])
                    ent[1] += 1
                else:
                    unlisted.append((it, v))
    for v in fin_viols:
        e = match_known(prop, v, known)
        if e is not None:
            ent = listed.setdefault(e['id'], [e, 0, v.get('detail', {}).get('item'), v])
            ent[1] += 1
        else:
            unlisted.append((v.get('detail', {}).get('item'), v))

    # replay files for unlisted violations (grouped by signature, simplest first = enumeration order)
    viol_lines = []
    seen_sig = {}
    for it, v in unlisted:
        key = canon(v['sig'])
        seen_sig.setdefault(key, []).append((it, v))
    written = 0
    if triage:
        for key, lst in sorted(seen_sig.items(), key=lambda kv: -len(kv[1])):
            it, v = lst[0]
            print('TRIAGE %d x %s\n    %s' % (len(lst), key, canon(v['detail'])[:1500]))
        for fid, (e, n, it, v) in sorted(listed.items()):
            print('TRIAGE-KNOWN %s x %d' % (fid, n))
        print('TRIAGE skips', skips, 'harness_errors', len(harness_errors))
        for it, err in harness_errors[:3]:
            print('HARNESS-ERROR item=%s\n%s' % (canon(it)[:600], err))
        return 0
    for key, lst in seen_sig.items():
        if written >= max_replays:
            break
        it, v = lst[0]
        path = write_replay(prop, name, it, v, tier, seed, len(lst))
        written += 1
        confirmed = confirm_replay(name, path) if it is not None and not getattr(mod, 'NO_REPLAY_CONFIRM', False) else True
        if not confirmed:
            # not reproducible from a fresh process: does it need state left behind by the items the same worker ran before?
            # replay the shortest suffix (1, 2, 4, ... items) of that worker's history in one fresh process, then the item
            idx = next((i for i, x in enumerate(items) if x is it), None)
            hist = prior.get(idx) or []
            k = 1
            while hist and not confirmed:
                take = hist[-k:]
                path = write_replay(prop, name, it, v, tier, seed, len(lst), history=[items[j] for j in take])
                confirmed = confirm_replay(name, path)
                if k >= len(hist):
                    break
                k = min(len(hist), k * 2)
        if confirmed:
            viol_lines.append('VIOLATION property=%s replay=%s' % (prop, path))
        else:
            harness_errors.append((it, 'violation did not reproduce from replay %s' % path))

    wall = time.time() - t0
    samples = []
    if hasattr(mod, 'sample_of'):
        for it, res in zip(items, results):
            if res['status'] == 'ok' and res.get('nontrivial'):
                samples.append(mod.sample_of(it, res))
                if len(samples) >= 3:
                    break
    if not samples:
        samples = [it for it, res in zip(items, results) if res['status'] == 'ok'][:3] or items[:1]
    coverage = {
        'states': states, 'transitions': transitions, 'traces_validated_against_impl': validated,
        'samples': samples,
        'evaluations': len(items), 'distinct_nontrivial': len(nontrivial),
        'rule': mod.RULE,
        'exhaustive': bool(getattr(mod, 'EXHAUSTIVE', True)) and counts['timeout'] == 0 and not skips.get('not_run_wall_cap'),
        'overall_wall_cap_s': wall, 'items_not_run_wall_cap': skips.get('not_run_wall_cap', 0),
        'items_ok': counts['ok'], 'items_violating': counts['violation'], 'items_skipped': counts['skip'],
        'items_timeout': counts['timeout'], 'items_worker_died': counts.get('crash', 0), 'skip_reasons': skips,
        'distinct_outcomes': len(outcomes),
        'timeout_examples': [canon(it)[:600] for it, res in zip(items, results) if res['status'] == 'timeout'][:4],
        'known_findings_hit': {k: e[1] for k, e in listed.items()},
        'unlisted_violation_signatures': len(seen_sig),
        'per_item_budget_s': budget, 'workers': jobs,
    }
    coverage.update(extra)
    ev = {
        'property_id': prop, 'tier': tier, 'seed': seed, 'level': 'model_checking',
        'coverage': coverage, 'assumptions': list(getattr(mod, 'ASSUMPTIONS', [])),
        'wall_s': round(wall, 2), 'violations': len(unlisted),
    }
    EVIDENCE.mkdir(exist_ok=True)
    (EVIDENCE / (prop + '.json')).write_text(json.dumps(ev, indent=1, default=str) + '\n')

    for fid, (e, n, it, v) in sorted(listed.items()):
        print('KNOWN-FINDING: property=%s %s [%s; %d occurrence(s) this run]' % (prop, e['what'], fid, n))
    print('%s tier=%s seed=%d items=%d ok=%d viol=%d skip=%d timeout=%d states=%d transitions=%d validated=%d '
          'nontrivial=%d outcomes=%d wall=%.1fs%s' % (prop, tier, seed, len(items), counts['ok'], counts['violation'],
                                                   counts['skip'], counts['timeout'], states, transitions, validated,
                                                   len(nontrivial), len(outcomes), wall,
                                                   (' worker_died=%d' % counts['crash']) if counts.get('crash') else ''))
    if harness_errors:
        for it, err in harness_errors[:5]:
            print('HARNESS-ERROR item=%s\n%s' % (canon(it)[:400], err), file=sys.stderr)
        if not viol_lines:
            return 2
    for ln in viol_lines:
        print(ln)
    if viol_lines:
        return 1
    return 0


def write_replay(prop, name, item, v, tier, seed, n_same, history=None):
    d = REPLAYS / prop
    d.mkdir(parents=True, exist_ok=True)
    rec = {'property': prop, 'check': name, 'item': item, 'violation': v, 'tier': tier, 'seed': seed,
           'items_with_same_signature': n_same}
    if history:
        rec['history'] = history
        rec['note'] = ('history-dependent: the violation shows only after the listed items were executed in the same process '
                       '(state left behind by earlier library calls)')
    path = d / ('%s.json' % digest({'item': item, 'sig': v['sig']}))
    path.write_text(json.dumps(rec, indent=1, default=str) + '\n')
    return str(path)


def confirm_replay(name, path):
    """Re-execute the violating item in a fresh process; True if it violates again."""
    env = dict(os.environ)
    env['PYTHONHASHSEED'] = '0'
    try:
        p = subprocess.run([PY, '-m', 'vt.check', name, '--replay', path, '--no-line'], cwd=str(ROOT), env=env,
                           stdout=subprocess.PIPE, stderr=subprocess.PIPE, timeout=900)
    except subprocess.TimeoutExpired:
        return False
    return p.returncode == 1


def replay(name, path, print_line=True):
    mod = load_check(name)
    rec = json.loads(Path(path).read_text())
    res = run_isolated(name, rec['item'], max(60, 5 * budget_of(mod, rec.get('tier', 'quick'))), rec.get('history') or ())
    if res['status'] == 'crash' and getattr(mod, 'CRASH_IS_VIOLATION', False):
        res['status'] = 'violation'
        sigf = getattr(mod, 'crash_sig', None)
        res['viols'] = [viol('process_died', sigf(rec['item']) if sigf else {}, detail=res.get('detail'))]
    print(json.dumps({k: v for k, v in res.items() if k != 'viols'}, default=str)[:2000])
    if res['status'] == 'violation':
        want = canon(rec['violation']['sig'])
        same = [v for v in res['viols'] if canon(v['sig']) == want]
        for v in (same or res['viols'])[:3]:
            print(json.dumps(v, indent=1, default=str)[:4000])
        if print_line:
            print('VIOLATION property=%s replay=%s' % (mod.PROP, path))
        return 1
    if res['status'] in ('harness_error', 'crash'):
        print(res.get('error') or res.get('detail'), file=sys.stderr)
        return 2
    return 0
