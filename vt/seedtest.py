"""Confirm a seeded defect and run the checks against it.

usage: python -m vt.seedtest <worktree> <index> <seed-id> <PROP> [--checks C01,C02] [--tier quick] [--skip-suite]

1. in the scratch worktree: demo passes on the unmodified code, fails with the patch, the full suite passes with it;
2. in /repo: apply the patch, run the named checks, undo (git checkout -- .);
3. store patch.diff, demo.py, meta.json under /verif/seeded/<seed-id>/ with what was run and what each check said.
"""
import argparse
import json
import os
import shutil
import subprocess
import sys
from pathlib import Path

ROOT = Path(__file__).resolve().parent.parent
PY = '/venv/bin/python'


def sh(cmd, cwd=None, env=None, timeout=3600):
    p = subprocess.run(cmd, shell=True, cwd=cwd, env=env, stdout=subprocess.PIPE, stderr=subprocess.STDOUT, timeout=timeout)
    return p.returncode, p.stdout.decode(errors='replace')


def main():
    ap = argparse.ArgumentParser()
    ap.add_argument('worktree')
    ap.add_argument('index')
    ap.add_argument('seed_id')
    ap.add_argument('prop')
    ap.add_argument('--checks')
    ap.add_argument('--tier', default='quick')
    ap.add_argument('--skip-suite', action='store_true')
    ap.add_argument('--no-store', action='store_true')
    ap.add_argument('--only-suite', action='store_true', help='confirm demo + suite only; keep earlier check results')
    a = ap.parse_args()
    wt = Path(a.worktree)
    src = wt / 'seedout' / a.index
    patch = src / 'patch.diff'
    env = dict(os.environ, PYTHONPATH=str(wt))
    report = {'property': a.prop, 'seed_id': a.seed_id}
    rc, out = sh('git status --porcelain -- sweetpea acceptance', cwd=wt)
    if out.strip():
        print('worktree not clean:', out)
        return 2
    rc0, out0 = sh('%s seedout/%s/demo.py' % (PY, a.index), cwd=wt, env=env, timeout=1200)
    report['demo_without_change'] = rc0
    rc, out = sh('git apply %s' % patch, cwd=wt)
    if rc != 0:
        print('patch does not apply in worktree', out)
        return 2
    try:
        rc1, out1 = sh('%s seedout/%s/demo.py' % (PY, a.index), cwd=wt, env=env, timeout=1200)
        report['demo_with_change'] = rc1
        report['demo_output_tail'] = out1[-600:]
        if not a.skip_suite:
            rcs, outs = sh('%s -m pytest -q -p no:cacheprovider -n 8 2>&1 | tail -1' % PY, cwd=wt, env=env)
            report['suite_with_change'] = outs.strip().splitlines()[-1] if outs.strip() else ''
    finally:
        sh('git checkout -- sweetpea acceptance', cwd=wt)
    print('demo without: %s, with: %s, suite: %s' % (rc0, report.get('demo_with_change'), report.get('suite_with_change')))
    if a.only_suite:
        a.checks = ''
    # checks against a fresh scratch worktree of /repo's HEAD with the patch applied (sys.path beats the editable
    # finder, so PYTHONPATH=<worktree> makes every check import that tree); /repo itself is not touched
    import tempfile
    scratch = tempfile.mkdtemp(prefix='seedrun_', dir='/tmp')
    os.rmdir(scratch)
    rc, out = sh('git worktree add -q --detach %s HEAD' % scratch, cwd='/repo')
    evdir = tempfile.mkdtemp(prefix='seedev_', dir='/tmp')
    try:
        rc, out = sh('git apply %s' % patch, cwd=scratch)
        if rc != 0:
            print('patch does not apply to /repo HEAD', out)
            report['applies_to_repo'] = False
        else:
            report['applies_to_repo'] = True
            res = {}
            env2 = dict(os.environ, PYTHONPATH=scratch, VERIF_EVIDENCE_DIR=evdir, VERIF_REPLAY_DIR=evdir)
            for chk in ([] if a.only_suite else (a.checks or a.prop).split(',')):
                rc, out = sh('%s -m vt.check %s --tier %s' % (PY, chk, a.tier), cwd=ROOT, env=env2, timeout=7200)
                lines = [l for l in out.splitlines() if l.startswith('VIOLATION')]
                res[chk] = {'exit': rc, 'violations': len(lines), 'summary': [l for l in out.splitlines() if l.startswith(chk)][-1:]}
                print(chk, 'exit', rc, 'VIOLATION lines', len(lines))
                if rc == 2:
                    print(out[-1500:])
            report['checks'] = res
    finally:
        sh('git worktree remove --force %s' % scratch, cwd='/repo')
        shutil.rmtree(evdir, ignore_errors=True)
    if not a.no_store:
        dst = ROOT / 'seeded' / a.seed_id
        dst.mkdir(parents=True, exist_ok=True)
        shutil.copy(patch, dst / 'patch.diff')
        shutil.copy(src / 'demo.py', dst / 'demo.py')
        meta = {}
        if (src / 'meta.json').exists():
            try:
                meta = json.loads((src / 'meta.json').read_text())
            except Exception:
                meta = {'raw': (src / 'meta.json').read_text()}
        prev = {}
        if (dst / 'meta.json').exists():
            try:
                prev = json.loads((dst / 'meta.json').read_text()).get('confirmed', {})
            except Exception:
                prev = {}
        if 'suite_with_change' not in report and prev.get('suite_with_change'):
            report['suite_with_change'] = prev['suite_with_change']      # confirmed in an earlier run of this tool
        merged = dict(prev.get('checks', {}))
        merged.update(report.get('checks', {}))
        report['checks'] = merged
        meta['confirmed'] = report
        meta['how_to_run'] = ('git -C /repo apply /verif/seeded/%s/patch.diff; cd /verif && %s -m vt.check %s --tier quick; '
                              'git -C /repo checkout -- .   (demo: PYTHONPATH=<tree> %s demo.py)' % (a.seed_id, PY, a.prop, PY))
        (dst / 'meta.json').write_text(json.dumps(meta, indent=1) + '\n')
    print(json.dumps(report, indent=1)[:1500])
    return 0


if __name__ == '__main__':
    sys.exit(main())
