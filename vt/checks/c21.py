"""C21 - tabulation counts are exact.

E4: every experiments list (1-2 experiments, equal length) of length<=3 over two factors, every factor selection
(through `block` or `factors=`, every non-empty ordered subset), every trial-index selection (None or any non-empty
subset). Drive: the real tabulate_experiments, stdout captured. Oracle: stdout parsed row by row: per experiment every
level combination exactly once (in product order), frequency == independent count over the selected trials,
proportion == 100*f/|selected|.
"""
import itertools
from vt import core

PROP = 'C21'
RULE = ('all sequences of length 1..3 over factor pools (A:2,B:2), (A:2,C:3; length<=2) and (A:2,T:2 with empty cells as a Transition factor has; length<=2), lists of 1 experiment (all) and 2 '
        'experiments (length<=2), x 6 factor selections x (None + every non-empty index subset). Non-trivial = some combination '
        'has frequency strictly between 0 and the number of selected trials, or trials is a proper subset.')
ASSUMPTIONS = ['experiments in one list have equal length (as synthesize_trials produces them)',
               'level names contain no spaces (parser of the printed table)']
BUDGET_S = {'quick': 120, 'thorough': 600}

POOLS = {'AB': [('A', ['a0', 'a1']), ('B', ['b0', 'b1'])],
         'AC': [('A', ['a0', 'a1']), ('C', ['c0', 'c1', 'c2'])],
         # a column as a Transition/Window factor produces it: '' where the factor has no level (such trials match no
         # combination but still count as selected trials)
         'AT': [('A', ['a0', 'a1']), ('T', ['t0', 't1'])]}
DATA = {'AT': {'T': ['', 't0', 't1']}}


def items(tier, seed):
    out = []
    for pool, maxL in (('AB', 3), ('AC', 2 if tier == 'quick' else 3), ('AT', 2 if tier == 'quick' else 3)):
        for L in range(1, maxL + 1):
            out.append({'pool': pool, 'L': L, 'nexp': 1})
            if L <= 2:
                out.append({'pool': pool, 'L': L, 'nexp': 2})
    if tier == 'thorough':
        out.append({'pool': 'AB', 'L': 4, 'nexp': 1})
    return out


def parse(out):
    """-> list of (exp_idx, [row dict])"""
    exps = []
    cur = None
    for line in out.splitlines():
        if line.startswith('Experiment '):
            cur = []
            exps.append((int(line[len('Experiment '):].rstrip(':')), cur))
        elif line.strip() and cur is not None:
            row = {}
            for cell in line.split(' | '):
                name, val = cell.strip().split(' ', 1)
                row[name] = val.strip()
            cur.append(row)
    return exps


def run_item(item):
    import sweetpea as sp
    pool = POOLS[item['pool']]
    L, nexp = item['L'], item['nexp']
    facs = {n: sp.Factor(n, lv) for n, lv in pool}
    names = [n for n, _ in pool]
    blocks = {
        'block_full': sp.CrossBlock([facs[n] for n in names], [facs[n] for n in names], []),
        'block_first': sp.CrossBlock([facs[n] for n in names], [facs[names[0]]], []),
    }
    selections = [('block_full', names), ('block_first', names[:1])]
    for r in (1, 2):
        for sub in itertools.permutations(names, r):
            selections.append(('factors', list(sub)))
    trial_sets = [None] + [list(s) for r in range(1, L + 1) for s in itertools.combinations(range(L), r)]
    if L >= 2:
        trial_sets.append(list(reversed(range(L))))
    trials_all = list(itertools.product(*[DATA.get(item['pool'], {}).get(n, lv) for n, lv in pool]))
    seqs = list(itertools.product(trials_all, repeat=L))
    viols = []
    states = transitions = 0
    nontriv = 0
    exp_lists = [[s] for s in seqs] if nexp == 1 else list(itertools.product(seqs, repeat=2))
    for el in exp_lists:
        experiments = [{n: [t[i] for t in s] for i, n in enumerate(names)} for s in el]
        for how, sel in selections:
            for trials in trial_sets:
                kw = {}
                if how == 'factors':
                    kw['factors'] = [facs[n] for n in sel]
                else:
                    kw['block'] = blocks[how]
                if trials is not None:
                    kw['trials'] = list(trials)
                sig = {'selection': how, 'trials': 'None' if trials is None else 'subset', 'nexp': nexp}
                states += 1
                try:
                    _, out = core.quiet_out(sp.tabulate_experiments, experiments=[dict(e) for e in experiments], **kw)
                except Exception as e:
                    viols.append(core.viol('exception', dict(sig, exc=type(e).__name__), experiments=experiments, sel=sel, trials=trials,
                                           message=str(e)[:200]))
                    continue
                parsed = parse(out)
                idxs = list(range(L)) if trials is None else list(trials)
                if [i for i, _ in parsed] != list(range(nexp)):
                    viols.append(core.viol('wrong_experiment_headers', sig, experiments=experiments, sel=sel, trials=trials, out=out[:500]))
                    continue
                interesting = trials is not None and len(idxs) < L
                for (ei, rows), e in zip(parsed, experiments):
                    combos = list(itertools.product(*[dict(pool)[n] for n in sel]))
                    got_combos = [tuple(r.get(n) for n in sel) for r in rows]
                    transitions += len(rows)
                    if got_combos != combos:
                        viols.append(core.viol('wrong_rows', sig, experiments=experiments, sel=sel, trials=trials, got=got_combos))
                        break
                    bad_row = None
                    for r, c in zip(rows, combos):
                        f = sum(1 for t in idxs if all(e[n][t] == v for n, v in zip(sel, c)))
                        if 0 < f < len(idxs):
                            interesting = True
                        try:
                            gf = int(r['frequency']); gp = float(r['proportion'].rstrip('%'))
                        except Exception:
                            bad_row = ('unparsable', r); break
                        if gf != f:
                            bad_row = ('wrong_frequency', r, f); break
                        if abs(gp - 100.0 * f / len(idxs)) > 1e-9 or not r['proportion'].endswith('%'):
                            bad_row = ('wrong_proportion', r, 100.0 * f / len(idxs)); break
                    if bad_row:
                        viols.append(core.viol(bad_row[0], sig, experiments=experiments, sel=sel, trials=trials, row=bad_row[1],
                                               expected=bad_row[2] if len(bad_row) > 2 else None, experiment_index=ei))
                        break
                if interesting:
                    nontriv += 1
    outcome = [item['pool'], L, nexp, states, nontriv]
    if viols:
        first = {}
        for v in viols:
            first.setdefault(core.canon(v['sig']), v)
        return core.bad(list(first.values())[:6], states, transitions, 0, nontriv > 0, outcome, n_viol=len(viols), n_nontrivial=nontriv)
    return core.ok(states, transitions, 0, nontriv > 0, outcome, n_nontrivial=nontriv)


def finalize(items_, results, tier):
    return {'calls_nontrivial': sum(r.get('n_nontrivial', 0) for r in results)}


def sample_of(item, res):
    return {'case_family': item, 'tabulate_calls': res['states'], 'rows_parsed': res['transitions']}
