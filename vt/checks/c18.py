"""C18 - reusing factor and constraint objects across blocks does not change meaning.

E3: explicit-state search over construction histories.  World: ONE pool of factor objects (A, B, C, derived TA, W) and ONE
object per constraint spec, shared by everything built in the world.  Transitions: "construct menu item i" - CrossBlocks of
different geometry (T = 2, 4, 3), MultiCrossBlock, Repeat, Merge and Nest over the shared objects.  A state is the history
that reaches it (fresh world, history replayed); its canonical form is the multiset of constructed items plus every shared
constraint's recorded geometry.  ALL histories up to the depth bound are executed (no deduplication of the executions;
the canonical forms are only counted), so a too-coarse state hash cannot hide anything.
Invariant, in every state and for every block constructed so far: the complete solution set of the compiled formula and the
sample_mismatch_experiment verdicts on a fixed probe list equal those of the same block built alone from fresh, unshared objects.
"""
import itertools
import json
from collections import Counter
from vt import core, dsw, gen, build as B

PROP = 'C18'
RULE = ('worlds = one shared constraint spec each (AtMostKInARow, AtLeastKInARow, ExactlyK, ExactlyKInARow, Pin first/last, Exclude, Sequential, '
        'two constraints together); menu of 14 constructions; all histories of depth <= 3 (thorough 4); states = distinct canonical '
        'states, transitions = constructions executed; non-trivial = the history builds >= 2 blocks of different geometry that share '
        'a constraint object.')
ASSUMPTIONS = ['the observations compared are all models of the compiled formula (projected, decoded by the library) and the mismatch checker verdicts; '
               'that IterateSATGen returns exactly those models is C02/C27']
BUDGET_S = {'quick': 120, 'thorough': 900}
DEPTH = {'quick': 3, 'thorough': 4}


def factors():
    A = gen.basic('A', 2); Bf = gen.basic('B', 2); C = gen.basic('C', 2)
    fm0 = {'A': A, 'B': Bf, 'C': C}
    TA = gen.window('TA', ['A'], fm0, 2, gen.same, kind='transition', start=1)
    return [A, Bf, C, TA]


WORLDS = {
    'atmost': [{'c': 'AtMostKInARow', 'k': 1, 'factor': 'B', 'level': 'b0'}],
    'atleast': [{'c': 'AtLeastKInARow', 'k': 2, 'factor': 'B', 'level': 'b0'}],
    'exactlyk': [{'c': 'ExactlyK', 'k': 1, 'factor': 'B', 'level': 'b0'}],
    'exactlykrow': [{'c': 'ExactlyKInARow', 'k': 1, 'factor': 'B', 'level': 'b0'}],
    'pinlast': [{'c': 'Pin', 'index': -1, 'factor': 'B', 'level': 'b0'}],
    'pinfirst': [{'c': 'Pin', 'index': 0, 'factor': 'B', 'level': 'b1'}],
    'exclude': [{'c': 'Exclude', 'factor': 'B', 'level': 'b1'}],
    'sequential': [{'c': 'Sequential', 'factor': 'A'}],
    'two': [{'c': 'AtMostKInARow', 'k': 1, 'factor': 'B', 'level': 'b0'}, {'c': 'Pin', 'index': -1, 'factor': 'A', 'level': 'a0'}],
    'wholefactor': [{'c': 'AtMostKInARow', 'k': 1, 'factor': 'B', 'level': None}],
}


def menu(cs):
    x = lambda design, crossing, cons=None: gen.cross(design, crossing, cs if cons is None else cons, True)
    rcc_off = any(c['c'] == 'Exclude' for c in cs)

    def cb(design, crossing, cons=None):
        b = x(design, crossing, cons)
        if rcc_off:
            b['rcc'] = False
        return b
    mt3 = [{'c': 'MinimumTrials', 'k': 3}]
    m = [
        cb(['A', 'B'], ['A']),                                   # T = 2
        cb(['A', 'B'], ['A', 'B']) if not rcc_off else cb(['A', 'B'], ['A'], cs + [{'c': 'MinimumTrials', 'k': 4}]),   # T = 4
        cb(['A', 'B'], ['A'], cs + mt3),                         # T = 3, scaled crossing with a partial pass
        {'op': 'repeat', 'block': cb(['A', 'B'], ['A']), 'constraints': [{'c': 'MinimumTrials', 'k': 4}]},
        {'op': 'multi', 'design': ['A', 'B'], 'crossings': [['A'], ['B']], 'constraints': cs, 'rcc': not rcc_off, 'mode': 'weight',
         'alignment': 'equal preamble'},
        {'op': 'nest', 'outer': gen.cross(['C'], ['C']), 'inner': cb(['A', 'B'], ['A']), 'constraints': []},
        cb(['A', 'B', 'TA'], ['TA']),                            # preamble, T = 3
        # the shared constraint given to the COMBINATOR (whole-sequence scope)
        {'op': 'repeat', 'block': cb(['A', 'B'], ['A'], []), 'constraints': cs + [{'c': 'MinimumTrials', 'k': 4}]},
        {'op': 'nest', 'outer': gen.cross(['C'], ['C']), 'inner': cb(['A', 'B'], ['A'], []), 'constraints': [c for c in cs if c['c'] != 'Exclude']},
        # a block with a Transition factor in its crossing used as the OUTER block of a Nest (its sustain count differs there)
        {'op': 'nest', 'outer': gen.cross(['A', 'TA'], ['TA'], []), 'inner': gen.cross(['C'], ['C']), 'constraints': [],
         'alignment': 'post preamble'},
        # ONE outer block object (with a MinimumTrials of its own) used by several combinators
        {'op': 'nest', 'outer': {'op': 'shared', 'name': 'outer', 'block': gen.cross(['C'], ['C'], [{'c': 'MinimumTrials', 'k': 3}])},
         'inner': cb(['A', 'B'], ['A']), 'constraints': []},
        {'op': 'repeat', 'block': {'op': 'shared', 'name': 'outer', 'block': gen.cross(['C'], ['C'], [{'c': 'MinimumTrials', 'k': 3}])},
         'constraints': []},
        # Merge written with every argument at its default: of a block carrying the shared constraint, and of a plain block
        {'op': 'merge', 'blocks': [cb(['A', 'B'], ['A'])], 'constraints': [], 'mode': 'repeat'},
        {'op': 'merge', 'blocks': [cb(['A', 'B'], ['A'], [])], 'constraints': [], 'mode': 'repeat'},
    ]
    return m


def items(tier, seed):
    out = []
    for w in WORLDS:
        n = len(menu(WORLDS[w]))
        for first in range(n):
            out.append({'world': w, 'first': first, 'depth': DEPTH[tier], 'tier': tier})
    return out


_FRESH = {}


def observe(block, design, probes=None):
    """The block's solution space as the set of models of its compiled formula projected onto the trial-sequence variables
    (same design => same variable numbering in a shared and a fresh build), decoded through the library's own decoder.
    Much cheaper than driving IterateSATGen to exhaustion, and it is the same formula IterateSATGen solves."""
    from vt import sat
    try:
        clauses, support, failed, cnf = dsw.compiled(block)
    except Exception as e:
        return ('raises', type(e).__name__), None
    if failed:
        return ('ok', []), []
    models = sat.all_models(clauses, over=list(range(1, support + 1)), limit=2000)
    try:
        tup = sorted(dsw.tuples([dsw.decode_solution(block, list(m)) for m in models], design))
    except (KeyError, IndexError) as e2:
        return ('malformed', type(e2).__name__), None
    return ('ok', tup), tup


def verdicts(block, design, probes):
    import sweetpea as sp
    out = []
    for s in probes:
        sample = {n: [s[t][j] for t in range(len(s))] for j, n in enumerate(design)}
        try:
            out.append(core.quiet(sp.sample_mismatch_experiment, block, sample) == {})
        except Exception as e:
            out.append(type(e).__name__)
    return out


def fresh_observation(world, i):
    key = (world, i)
    if key in _FRESH:
        return _FRESH[key]
    fs = factors()
    b = menu(WORLDS[world])[i]
    spec = {'factors': fs, 'block': b}
    design = B.block_design(b)
    try:
        objs, block = core.quiet(B.build, spec)
    except Exception as e:
        _FRESH[key] = None
        return None
    obs, tup = observe(block, design)
    probes = []
    if tup:
        base = tup[:4]
        probes = list(base)
        for s in base[:2]:
            for t in range(len(s)):
                for j in range(len(design)):
                    alt = 'a1' if s[t][j] == 'a0' else ('a0' if s[t][j] == 'a1' else ('b1' if s[t][j] == 'b0' else ('b0' if s[t][j] == 'b1' else None)))
                    if alt:
                        tr = list(s[t]); tr[j] = alt
                        probes.append(s[:t] + (tuple(tr),) + s[t + 1:])
        probes = probes[:16]
    objs, block = core.quiet(B.build, spec)
    v = verdicts(block, design, probes)
    _FRESH[key] = (obs, probes, v, design)
    return _FRESH[key]


def cons_state(cons_cache):
    st = {}
    for k, c in sorted(cons_cache.items()):
        if k.startswith('#block:'):
            st[k] = [type(x).__name__ + ':' + repr(getattr(x, 'within_block', getattr(x, 'trials', None))) for x in getattr(c, 'orig_constraints', [])]
            continue
        wb = getattr(c, 'within_block', None)
        st[k] = repr(wb)
    return st


def run_item(item):
    world = item['world']
    cs = WORLDS[world]
    m = menu(cs)
    n = len(m)
    fs = factors()
    viols = []
    states = set()
    transitions = 0
    hist_count = 0
    nontriv = 0
    seen_bad = set()
    for depth in range(1, item['depth'] + 1):
        for rest in itertools.product(range(n), repeat=depth - 1):
            hist = (item['first'],) + rest
            hist_count += 1
            # fresh world
            objs = B.build_factors({'factors': fs})
            cache = {}
            built = []
            ok = True
            for i in hist:
                try:
                    blk = core.quiet(B.build_block, m[i], objs, cache)
                    built.append((i, blk))
                except Exception as e:
                    built.append((i, e))
                transitions += 1
            states.add(core.canon([sorted(Counter(hist).items()), cons_state(cache)]))
            if len(set(hist)) >= 2:
                nontriv += 1
            # invariant for every block constructed in this history (checked in the final state)
            for pos, (i, blk) in enumerate(built):
                fo = fresh_observation(world, i)
                sig = {'world': world, 'item': i, 'after': 'later' if pos < len(built) - 1 else 'last',
                       'history_len': len(hist)}
                if isinstance(blk, Exception):
                    if fo is not None:
                        key = ('ctor', i, tuple(hist[:pos]))
                        if key not in seen_bad:
                            seen_bad.add(key)
                            viols.append(core.viol('constructor_raises_only_with_shared_objects', dict(sig, exc=type(blk).__name__),
                                                   history=[m[j] for j in hist], message=str(blk)[:200]))
                    continue
                if fo is None:
                    continue
                fobs, probes, fverd, design = fo
                obs, _ = observe(blk, design)
                if obs != fobs:
                    key = ('set', i, tuple(sorted(set(hist))))
                    if key not in seen_bad:
                        seen_bad.add(key)
                        viols.append(core.viol('sequences_differ_from_fresh_build', sig, history=list(hist), menu=[m[j] for j in hist],
                                               shared=[obs[0], len(obs[1]) if obs[0] == 'ok' else obs[1]],
                                               fresh=[fobs[0], len(fobs[1]) if fobs[0] == 'ok' else fobs[1]]))
                    continue
                v = verdicts(blk, design, probes)
                if v != fverd:
                    key = ('verdict', i, tuple(sorted(set(hist))))
                    if key not in seen_bad:
                        seen_bad.add(key)
                        viols.append(core.viol('mismatch_verdicts_differ_from_fresh_build', sig, history=list(hist), menu=[m[j] for j in hist],
                                               shared=v, fresh=fverd))
    outcome = [world, item['first'], hist_count, len(states)]
    if viols:
        return core.bad(viols[:8], states=len(states), transitions=transitions, nontrivial=nontriv > 0, outcome=outcome, n_viol=len(viols))
    return core.ok(states=len(states), transitions=transitions, validated=hist_count, nontrivial=nontriv > 0, outcome=outcome)


def sample_of(item, res):
    return {'world': item['world'], 'shared_constraints': WORLDS[item['world']], 'first_construction': menu(WORLDS[item['world']])[item['first']],
            'histories_executed': res['outcome'][2], 'distinct_states': res['outcome'][3]}
