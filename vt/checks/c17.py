"""C17 - the mismatch checker accepts exactly the valid sequences.

E1 x E4: for every design, every WELL-FORMED candidate sequence (one level name per trial for every factor that
applies at that trial, '' exactly where a derived factor does not apply - the property's own precondition) is given to
sample_mismatch_experiment on a freshly built block: the full product of level names (derived columns included, so wrong
derived labels are covered) when it has <= LIMIT elements, otherwise every valid sequence plus its complete one-edit
neighbourhood (one cell changed to any other level of that factor) plus every adjacent-trial swap.  Wrong-length
sequences (one trial dropped / duplicated) are added.
Oracle: the result is {} iff the candidate is in the reference set (one reading must explain all verdicts); an
exception is a violation (the property promises a verdict).
"""
import itertools
from vt import core, dsw, ref as R

PROP = 'C17'
RULE = ('designs of strata S1, S1x, S2, S3, S4, S5, S6 (quick: stratified core + seed-rotated members) with <= REF_LIMIT reference '
        'sequences; per design all well-formed candidates (<= LIMIT) or valid + 1-edit + swap neighbourhoods; states = candidates judged, '
        'transitions = checker calls; non-trivial = both accepted and rejected candidates occur.')
ASSUMPTIONS = ['reference model vt/ref.py (documented semantics; readings where under-specified)',
               'candidates are well-formed: a blank cell exactly where a derived factor has no level']
BUDGET_S = {'quick': 90, 'thorough': 600}
STRATA = ['S1', 'S1L', 'S1n', 'S1p', 'S1x', 'S2', 'S2s', 'S3', 'S4', 'S5', 'S6']
QUICK_CAPS = dsw.QUICK_CAPS_BIG
LIMIT = {'quick': 1500, 'thorough': 20000}


def items(tier, seed):
    return dsw.design_items(STRATA, tier, seed, QUICK_CAPS)


def cell_choices(c, T):
    fm = R.fmap(c.spec)
    sem = c.ref.sem
    cols = []
    for n in c.design:
        f = fm[n]
        per = []
        for t in range(T):
            if R.is_derived(f) and not R.applies(fm, f, t, sem.sustain.get(n, 1)):
                per.append([''])
            else:
                per.append(R.level_names(f))
        cols.append(per)
    return cols


def candidates(c, T, valid, limit):
    cols = cell_choices(c, T)
    per_trial = [list(itertools.product(*[cols[j][t] for j in range(len(c.design))])) for t in range(T)]
    total = 1
    for p in per_trial:
        total *= len(p)
        if total > limit:
            break
    if total <= limit:
        return list(itertools.product(*per_trial)), True
    out = set(valid)
    for s in valid:
        for t in range(T):
            for j in range(len(c.design)):
                for v in cols[j][t]:
                    if v != s[t][j]:
                        tr = list(s[t]); tr[j] = v
                        out.add(s[:t] + (tuple(tr),) + s[t + 1:])
            if t + 1 < T and s[t] != s[t + 1]:
                sw = list(s); sw[t], sw[t + 1] = sw[t + 1], sw[t]
                # keep blank cells where they belong
                if all((sw[u][j] == '') == (cols[j][u] == ['']) for u in (t, t + 1) for j in range(len(c.design))):
                    out.add(tuple(sw))
        if len(out) > 4 * limit:
            break
    return sorted(out), False


def run_item(item):
    import sweetpea as sp
    c, sk = dsw.setup(item['spec'], item['tier'])
    if sk:
        return sk
    sig = dict(c.sig)
    if c.ref.errors:
        # the documentation gives such a design an error instead of sequences; what the checker should answer is not determined
        return core.skip('design has no sequences by construction')
    try:
        T = c.block.trials_per_sample()
    except Exception as e:
        return core.skip('trials_per_sample raises (C08/C16)')
    if T not in c.ref.Ts:
        return core.skip('trial count differs from reference (C16)')
    block = c.block
    verdicts = {}
    viols = []
    readings = [v for v, t in zip(c.ref.readings, c.ref.Ts) if t == T]
    union = set()
    for v in readings:
        union |= set(v)
    cands, full = candidates(c, T, sorted(union), LIMIT[item['tier']])
    calls = 0
    for s in cands:
        sample = {n: [s[t][j] for t in range(T)] for j, n in enumerate(c.design)}
        calls += 1
        try:
            res = core.quiet(sp.sample_mismatch_experiment, block, sample)
        except Exception as e:
            viols.append(core.viol('exception', dict(sig, exc=type(e).__name__, on='valid' if s in union else 'invalid'),
                                   design=dsw.brief(c.spec), candidate=s, message=str(e)[:200]))
            break
        verdicts[s] = (res == {})
    if not viols:
        ok_reading = None
        for i, v in enumerate(readings):
            if all(verdicts[s] == (s in v) for s in verdicts):
                ok_reading = i
                break
        if ok_reading is None:
            v = readings[0]
            fa = [s for s in verdicts if verdicts[s] and s not in v]
            fr = [s for s in verdicts if not verdicts[s] and s in v]
            kind = '+'.join(k for k, x in (('false_accept', fa), ('false_reject', fr)) if x)
            det = {}
            if fa:
                det['false_accept_count'] = len(fa); det['false_accept_example'] = fa[0]
            if fr:
                det['false_reject_count'] = len(fr); det['false_reject_example'] = fr[0]
                try:
                    smp = {n: [fr[0][t][j] for t in range(T)] for j, n in enumerate(c.design)}
                    det['reported_mismatch'] = str(core.quiet(sp.sample_mismatch_experiment, block, smp))[:300]
                except Exception:
                    pass
            viols.append(core.viol('wrong_verdict', dict(sig, verdict=kind), design=dsw.brief(c.spec), **det))
        # wrong lengths
        for s in sorted(union)[:3]:
            for alt in (s[:-1], s + (s[-1],)):
                if not alt:
                    continue
                sample = {n: [alt[t][j] for t in range(len(alt))] for j, n in enumerate(c.design)}
                calls += 1
                try:
                    res = core.quiet(sp.sample_mismatch_experiment, block, sample)
                    if res == {}:
                        viols.append(core.viol('wrong_length_accepted', sig, design=dsw.brief(c.spec), candidate=alt, T=T))
                except Exception as e:
                    viols.append(core.viol('exception', dict(sig, exc=type(e).__name__, on='wrong_length'), design=dsw.brief(c.spec),
                                           candidate=alt, message=str(e)[:200]))
    acc = sum(1 for x in verdicts.values() if x)
    nt = 0 < acc < len(verdicts)
    outcome = [len(verdicts), acc, full]
    if viols:
        first = {}
        for v in viols:
            first.setdefault(core.canon(v['sig']), v)
        return core.bad(list(first.values()), states=max(1, len(verdicts)), transitions=max(1, calls), nontrivial=nt, outcome=outcome)
    return core.ok(states=max(1, len(verdicts)), transitions=max(1, calls), validated=acc, nontrivial=nt, outcome=outcome)


sample_of = dsw.sample_of
