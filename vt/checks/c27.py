"""C27 - solver input and output text is faithful.

E4 + E2: every small CNF object (clause multisets over variables 1..4, every support size whose variables all occur),
plus wide supports (11, 21) for the ten-per-line rule, x every solver assignment (scripted through a recording fake
of pycryptosat / pyunigen / pycmsgen bound at the module seams).
Oracle: an independent strict DIMACS reader recovers exactly the clause multiset; header clause count exact; header
variable count >= distinct variables used; 'c ind' lines == 1..support (<=10 per line, 0-terminated);
parse_cnf_file and the clauses handed to the solver equal the same; cryptominisat_solve (library emulation and the solver's
text answer wrapped over 'v' lines of every width) / sample_uniform /
build_solution return exactly the scripted assignment; after update_file the file parses to the old clauses plus
one clause that is false on exactly the previous support assignment (all 2^support assignments checked), header +1.
"""
import itertools
import os
from collections import Counter
from pathlib import Path
from vt import core

PROP = 'C27'
RULE = ('clause multisets: <=2 clauses of <=3 literals over vars 1..4, plus 3-clause sets of <=2 literals over vars 1..3 '
        '(thorough: all <=3 clauses of <=3 literals over 1..4), x every support s with vars 1..s all occurring, plus supports 10/11/20/21; '
        'per CNF every assignment of its variables is scripted as the solver answer. '
        'Non-trivial = CNF with >=2 clauses or support < number of variables (projection matters).')
ASSUMPTIONS = ['every trial-sequence (support) variable occurs in some clause, as in every compiled design (consistency clauses)',
               'the fakes speak the pycryptosat / pyunigen / pycmsgen interface as the library uses it (smoke-checked against the real modules in C01)']
BUDGET_S = {'quick': 120, 'thorough': 900}
CHUNK = 60


def all_clauses(nv, maxlen):
    out = []
    for r in range(1, maxlen + 1):
        for vs in itertools.combinations(range(1, nv + 1), r):
            for signs in itertools.product((1, -1), repeat=r):
                out.append([v * s for v, s in zip(vs, signs)])
    return out


_C = {}


def cnfs(kind):
    if kind in _C:
        return _C[kind]
    if kind == 'small':
        cl = all_clauses(4, 3)
        sets = [[c] for c in cl] + [list(p) for p in itertools.combinations_with_replacement(cl, 2)]
        cl2 = all_clauses(3, 2)
        sets += [list(p) for p in itertools.combinations_with_replacement(cl2, 3)]
    elif kind == 'full3':
        cl = all_clauses(4, 3)
        sets = [list(p) for p in itertools.combinations_with_replacement(cl, 3)]
    elif kind == 'wide':
        sets = []
        for s in (10, 11, 20, 21):
            sets.append([[i, -(i % s + 1)] for i in range(1, s + 1)] + [[s + 2, -1]])
    # order clauses inside a set in a non-sorted way too (reversal is what CNF.__str__ does)
    _C[kind] = sets
    return sets


def items(tier, seed):
    out = []
    kinds = ['small', 'wide'] + (['full3'] if tier == 'thorough' else [])
    for kind in kinds:
        n = len(cnfs(kind))
        ch = CHUNK if kind != 'full3' else 400
        for lo in range(0, n, ch):
            out.append({'kind': kind, 'lo': lo, 'hi': min(n, lo + ch)})
    return out


def strict_dimacs(text):
    """Independent strict reader -> (nvars, nclauses_declared, clauses, ind_lines)."""
    header = None
    clauses = []
    ind = []
    for ln, line in enumerate(text.split('\n')):
        if line.strip() == '':
            continue
        if line.startswith('c ind '):
            toks = line.split()[2:]
            if toks[-1] != '0':
                raise ValueError('c ind line not 0-terminated: %r' % line)
            ind.append([int(t) for t in toks[:-1]])
            continue
        if line.startswith('c'):
            continue
        if line.startswith('p'):
            if header is not None or clauses:
                raise ValueError('misplaced problem line')
            toks = line.split()
            if len(toks) != 4 or toks[:2] != ['p', 'cnf']:
                raise ValueError('bad problem line %r' % line)
            header = (int(toks[2]), int(toks[3]))
            continue
        if header is None:
            raise ValueError('clause before problem line')
        toks = [int(t) for t in line.split()]
        if toks[-1] != 0 or 0 in toks[:-1]:
            raise ValueError('bad clause line %r' % line)
        clauses.append(toks[:-1])
    if header is None:
        raise ValueError('no problem line')
    return header[0], header[1], clauses, ind


def ms(clauses):
    return Counter(tuple(c) for c in clauses)


class FakeCMS:
    """Recording stand-in for the pycryptosat module."""
    def __init__(self):
        self.script = []      # list of assignments (dict var->bool) or None for UNSAT
        self.calls = []       # recorded clause lists, one per Solver

    def Solver(self, *a, **k):
        outer = self
        class S:
            def __init__(self):
                self.clauses = []
                outer.calls.append(self.clauses)
            def add_clause(self, c):
                self.clauses.append(list(c))
            def solve(self, *a, **k):
                ans = outer.script.pop(0)
                if ans is None:
                    return False, None
                n = max(abs(l) for c in self.clauses for l in c)
                return True, tuple([None] + [bool(ans.get(v, False)) for v in range(1, n + 1)])
        return S()


class FakeUnigen:
    def __init__(self):
        self.samples = []
        self.calls = []

    def Sampler(self, *a, **k):
        outer = self
        class S:
            def __init__(self):
                self.clauses = []
            def add_clause(self, c):
                self.clauses.append(list(c))
            def sample(self, num=None, sampling_set=None, **k):
                outer.calls.append((self.clauses, list(sampling_set), num))
                out = [[v if a[v] else -v for v in sampling_set] for a in outer.samples]
                return (1, 0, out)
        return S()


class FakeCmsgen:
    def __init__(self):
        self.samples = []
        self.calls = []

    def Solver(self, seed=None, **k):
        outer = self
        class S:
            def __init__(self):
                self.clauses = []
            def add_clause(self, c):
                self.clauses.append(list(c))
            def solve(self, *a, **k):
                outer.calls.append(self.clauses)
                a_ = outer.samples.pop(0)
                n = max(abs(l) for c in self.clauses for l in c)
                return True, tuple([None] + [bool(a_.get(v, False)) for v in range(1, n + 1)])
        return S()


def check_cnf(clauses, viols, cnt):
    from sweetpea._internal.core.cnf import CNF
    import importlib
    utility = importlib.import_module('sweetpea._internal.core.generate.utility')
    sample_non_uniform = importlib.import_module('sweetpea._internal.core.generate.sample_non_uniform')
    sample_uniform = importlib.import_module('sweetpea._internal.core.generate.sample_uniform')
    from sweetpea._internal.core.generate.tools import cryptominisat as cmsmod, unigen as ugmod
    vars_ = sorted({abs(l) for c in clauses for l in c})
    nv = len(vars_)
    supports = [s for s in range(1, max(vars_) + 1) if all(v in vars_ for v in range(1, s + 1))]
    if max(vars_) > 8:   # wide family: a single support = the chain length
        supports = [max(v for v in vars_ if v + 1 in vars_ or v == 1) if False else len(clauses) - 1]
    want = ms(clauses)
    nontrivial = False
    for support in supports:
        sig = {'support_gt_10': support > 10}
        cnf = CNF([list(c) for c in clauses])
        path = Path('c27_%d.cnf' % os.getpid())
        # ---- A. text
        utility.save_cnf(path, cnf, None, support)
        text = path.read_text()
        try:
            hv, hc, got, ind = strict_dimacs(text)
        except ValueError as e:
            viols.append(core.viol('dimacs_malformed', sig, clauses=clauses, support=support, error=str(e), text=text[:400]))
            continue
        cnt['states'] += 1
        if ms(got) != want:
            viols.append(core.viol('dimacs_clauses_differ', sig, clauses=clauses, support=support, got=got))
        if hc != len(clauses):
            viols.append(core.viol('dimacs_clause_count', sig, clauses=clauses, support=support, header=hc))
        if hv < nv:
            viols.append(core.viol('dimacs_var_count_too_small', sig, clauses=clauses, support=support, header=hv, used=nv))
        flat = [v for l in ind for v in l]
        if flat != list(range(1, support + 1)) or any(len(l) > 10 for l in ind):
            viols.append(core.viol('sampling_set_lines', sig, clauses=clauses, support=support, ind=ind))
        # ---- B. library parser
        pc, pset, pnv = ugmod.parse_cnf_file(path)
        if ms(pc) != want or pset != list(range(1, support + 1)) or pnv != hv:
            viols.append(core.viol('parse_cnf_file_differs', sig, clauses=clauses, support=support, parsed=[pc, pset, pnv]))
        if support < nv or len(clauses) >= 2:
            nontrivial = True
        if max(vars_) > 8:
            assigns = [dict((v, (v * 7 + k) % 3 == 0) for v in vars_) for k in range(3)]
        else:
            assigns = [dict(zip(vars_, bits)) for bits in itertools.product((False, True), repeat=nv)]
        # ---- C/D. solver path incl. blocking clause, under the recording fake
        fake = FakeCMS()
        saved = (cmsmod.pycryptosat, cmsmod.HAS_PYCRYPTOSAT)
        cmsmod.pycryptosat, cmsmod.HAS_PYCRYPTOSAT = fake, True
        try:
            for a in assigns:
                cnt['transitions'] += 1
                utility.save_cnf(path, cnf, None, support)
                fake.script = [a, None]
                fake.calls = []
                sols = core.quiet(sample_non_uniform.compute_solutions, path, support, 5)
                exp_sol = [v if a[v] else -v for v in range(1, support + 1)]
                if sols != [exp_sol]:
                    viols.append(core.viol('solver_output_misparsed', sig, clauses=clauses, support=support, scripted=exp_sol, got=sols))
                    break
                if len(fake.calls) != 2 or ms(fake.calls[0]) != want:
                    viols.append(core.viol('solver_input_differs', sig, clauses=clauses, support=support, got=fake.calls[:1]))
                    break
                second = ms(fake.calls[1])
                extra = second - want
                if (want - second) or sum(extra.values()) != 1:
                    viols.append(core.viol('update_file_clauses', sig, clauses=clauses, support=support, second=fake.calls[1]))
                    break
                blocking = list(next(iter(extra)))
                # false on exactly the previous support assignment
                sv = list(range(1, support + 1))
                bad_block = set(abs(l) for l in blocking) - set(sv)
                falsified = []
                if not bad_block and support <= 12:
                    for bits in itertools.product((False, True), repeat=support):
                        b = dict(zip(sv, bits))
                        if not any((b[abs(l)] if l > 0 else not b[abs(l)]) for l in blocking):
                            falsified.append([v if b[v] else -v for v in sv])
                    if falsified != [exp_sol]:
                        bad_block = True
                elif not bad_block:
                    if sorted(blocking, key=abs) != [-l for l in exp_sol]:
                        bad_block = True
                if bad_block:
                    viols.append(core.viol('blocking_clause_wrong', sig, clauses=clauses, support=support, previous=exp_sol, blocking=blocking))
                    break
                try:
                    hv2, hc2, got2, ind2 = strict_dimacs(path.read_text())
                    if hc2 != len(clauses) + 1 or ms(got2) != second or [v for l in ind2 for v in l] != sv:
                        viols.append(core.viol('updated_file_inconsistent', sig, clauses=clauses, support=support, header=[hv2, hc2]))
                        break
                except ValueError as e:
                    viols.append(core.viol('updated_file_malformed', sig, clauses=clauses, support=support, error=str(e)))
                    break
            # UNSAT answer
            utility.save_cnf(path, cnf, None, support)
            fake.script = [None]; fake.calls = []
            if core.quiet(sample_non_uniform.compute_solutions, path, support, 3) != []:
                viols.append(core.viol('unsat_not_reported_empty', sig, clauses=clauses, support=support))
        finally:
            cmsmod.pycryptosat, cmsmod.HAS_PYCRYPTOSAT = saved
        # ---- E. uniform samplers
        fu, fc = FakeUnigen(), FakeCmsgen()
        saved = (ugmod.pyunigen, ugmod.HAS_PYUNIGEN, ugmod.pycmsgen, ugmod.HAS_PYCMSGEN)
        ugmod.pyunigen, ugmod.HAS_PYUNIGEN, ugmod.pycmsgen, ugmod.HAS_PYCMSGEN = fu, True, fc, True
        try:
            exp = [[v if a[v] else -v for v in range(1, support + 1)] for a in assigns]
            fu.samples = list(assigns)
            res = core.quiet(sample_uniform.sample_uniform, len(assigns), cnf, max(vars_), support, [], False, False)
            cnt['transitions'] += len(assigns)
            # (the scripted answers are arbitrary assignments; for an unsatisfiable clause set the library may rightly decide
            # "no samples" itself without consulting the sampler)
            from vt import sat as _sat
            satisfiable = bool(_sat.all_models([list(cl) for cl in clauses], limit=1))
            if [r.assignment for r in res] != exp and not (not satisfiable and res == []):
                viols.append(core.viol('unigen_output_misparsed', sig, clauses=clauses, support=support, got=[r.assignment for r in res][:4]))
            elif (satisfiable or fu.calls) and (not fu.calls or ms(fu.calls[0][0]) != want or fu.calls[0][1] != list(range(1, support + 1))):
                viols.append(core.viol('unigen_input_differs', sig, clauses=clauses, support=support, got=fu.calls[:1]))
            fc.samples = list(assigns)
            res = core.quiet(sample_uniform.sample_uniform, len(assigns), cnf, max(vars_), support, [], False, True)
            cnt['transitions'] += len(assigns)
            if [r.assignment for r in res] != exp:
                viols.append(core.viol('cmsgen_output_misparsed', sig, clauses=clauses, support=support, got=[r.assignment for r in res][:4]))
            elif not fc.calls or any(ms(c) != want for c in fc.calls):
                viols.append(core.viol('cmsgen_input_differs', sig, clauses=clauses, support=support))
        finally:
            ugmod.pyunigen, ugmod.HAS_PYUNIGEN, ugmod.pycmsgen, ugmod.HAS_PYCMSGEN = saved
        # ---- F. the solver's TEXT answer (binary / docker path): the assignment wrapped over 'v' lines of every width, with comment
        #         and status lines around it, must come back literal for literal
        from subprocess import CompletedProcess
        saved_cli = cmsmod.call_cryptominisat_cli
        try:
            for a in (assigns if len(assigns) <= 8 else assigns[:3] + assigns[-3:]):
                lits = [v if a[v] else -v for v in vars_] + [0]
                for width in sorted(set([1, 2, 3, 5, len(lits)])):
                    if width > len(lits):
                        continue
                    lines = ['v ' + ' '.join(str(x) for x in lits[i:i + width]) for i in range(0, len(lits), width)]
                    text = 'c solver banner\ns SATISFIABLE\n' + '\n'.join(lines) + '\n'
                    cmsmod.call_cryptominisat_cli = lambda f, d, _t=text: CompletedProcess(args=['cms'], returncode=10, stdout=_t.encode(), stderr=b'')
                    utility.save_cnf(path, cnf, None, support)
                    got = cmsmod.cryptominisat_solve(path, False)
                    cnt['transitions'] += 1
                    if got != lits:
                        viols.append(core.viol('solver_text_misparsed', dict(sig, wrapped=len(lines) > 1), clauses=clauses, text=text, got=got, expected=lits))
                        break
            cmsmod.call_cryptominisat_cli = lambda f, d: CompletedProcess(args=['cms'], returncode=20, stdout=b's UNSATISFIABLE\n', stderr=b'')
            if cmsmod.cryptominisat_solve(path, False) != []:
                viols.append(core.viol('solver_text_unsat_misparsed', sig, clauses=clauses))
        finally:
            cmsmod.call_cryptominisat_cli = saved_cli
        if path.exists():
            path.unlink()
    return nontrivial


def run_item(item):
    sets = cnfs(item['kind'])[item['lo']:item['hi']]
    viols = []
    cnt = {'states': 0, 'transitions': 0}
    nt = 0
    for cl in sets:
        if check_cnf(cl, viols, cnt):
            nt += 1
    outcome = [item['kind'], item['lo'], cnt['states'], cnt['transitions']]
    if viols:
        first = {}
        for v in viols:
            first.setdefault(core.canon(v['sig']), v)
        return core.bad(list(first.values())[:8], cnt['states'], cnt['transitions'], 0, nt > 0, outcome, n_cnf=len(sets), n_nontrivial=nt)
    return core.ok(cnt['states'], cnt['transitions'], 0, nt > 0, outcome, n_cnf=len(sets), n_nontrivial=nt)


def finalize(items_, results, tier):
    return {'cnf_objects': sum(r.get('n_cnf', 0) for r in results),
            'cnf_objects_nontrivial': sum(r.get('n_nontrivial', 0) for r in results)}


def sample_of(item, res):
    s = cnfs(item['kind'])
    return {'chunk': item, 'first_cnf': s[item['lo']], 'last_cnf': s[item['hi'] - 1]}
