"""C08 - synthesis never fails internally on an accepted design.

E1: every design of the strata plus the edge stratum S9 (k >= T, k >= repetition length, Pin far out of range, one-level
factors, everything excluded with require_complete_crossing=False ...) that the constructors accept is run through
synthesize_trials(block, n, G) for n in {1, 3} and G in {IterateSATGen, RandomGen, CMSGen, UniGen, IterateGen, UniformGen}
with the real solvers.  Oracle: the call returns a list.  Any exception is a violation (the refusal whitelist is
empty: none of these strategies documents a refusal for a constructed block).
"""
import random
from vt import core, dsw

PROP = 'C08'
RULE = ('designs of strata S1, S1x, S2, S3, S4, S5, S6, S9 (quick: fixed core + seed-rotated slice) x 6 strategies x n in {1,3}; '
        'states = (design, strategy, n) calls made; non-trivial = a call returned at least one sequence.')
ASSUMPTIONS = ['a RuntimeError/ValueError raised by a block constructor means the design is not accepted (skipped)']
BUDGET_S = {'quick': 90, 'thorough': 400}
STRATA = ['S1', 'S1n', 'S1p', 'S1x', 'S1xa', 'S2', 'S2s', 'S3', 'S4', 'S5', 'S6', 'S9']
QUICK_CAPS = dsw.QUICK_CAPS_MID
GENS = ['sat', 'rnd', 'cms', 'uni', 'iter', 'uniform']
CRASH_IS_VIOLATION = True     # a call that terminates the interpreter did not "return a list"


def crash_sig(item):
    return dict(dsw.design_sig(item['spec']), gen='?')


def items(tier, seed):
    return dsw.design_items(STRATA, tier, seed, QUICK_CAPS, extra={'seed': seed})


def run_item(item):
    import numpy
    c, sk = dsw.setup(item['spec'], item['tier'], need_ref=False)
    if sk:
        return sk
    sig = dict(c.sig)
    random.seed(item.get('seed', 0))
    numpy.random.seed(item.get('seed', 0))
    viols = []
    calls = 0
    some = False
    for g in GENS:
        for n in (1, 3):
            block = dsw.rebuild(c)
            exps, e, out = dsw.synth(block, n, g)
            calls += 1
            if e is not None:
                viols.append(core.viol('exception', dict(sig, gen=g, exc=type(e).__name__), design=dsw.brief(c.spec), n=n, message=str(e)[:300]))
                break
            if not isinstance(exps, list):
                viols.append(core.viol('not_a_list', dict(sig, gen=g), design=dsw.brief(c.spec), n=n, got=type(exps).__name__))
                break
            some = some or bool(exps)
    if viols:
        return core.bad(viols, states=calls, transitions=calls, nontrivial=some, outcome=[calls])
    return core.ok(states=calls, transitions=calls, validated=calls, nontrivial=some, outcome=[calls, some])


sample_of = dsw.sample_of
