"""C07 - SAT-based and combinatoric samplers agree on the solution space.

E1, differential (no reference reading involved): every design both strategies accept is exhausted through
IterateSATGen (real solver loop) and through RandomGen (real enumerator, PRNG seeded from VERIF_SEED - the set of
sequences returned by an exhausted without-replacement sampler does not depend on the draw order) and the two sets
of name-level sequences, and the trial counts, must be equal.  Designs on which either side raises are outside
"accepted by both" (exceptions are C08's subject) and are counted as skipped.
"""
import random
from collections import Counter
from vt import core, dsw

PROP = 'C07'
RULE = ('designs of strata S1, S1x, S2, S3, S4, S5, S6 (vt/gen.py; quick = fixed core + seed-rotated slice) with <= CAP sequences; '
        'both samplers exhausted on freshly built blocks; states = sequences compared (both sides), transitions = sampler calls. '
        'Non-trivial = both sides return >= 2 sequences.')
ASSUMPTIONS = ['an exhausted RandomGen returns the same set whatever the PRNG seed (checked under the VERIF_SEED given)']
BUDGET_S = {'quick': 60, 'thorough': 300}
STRATA = ['S1', 'S1L', 'S1n', 'S1p', 'S1x', 'S1xa', 'S3s', 'S2', 'S2s', 'S3', 'S4', 'S5', 'S6']
QUICK_CAPS = dsw.QUICK_CAPS_BIG
CAP = {'quick': 250, 'thorough': 1000}


def items(tier, seed):
    return dsw.design_items(STRATA, tier, seed, QUICK_CAPS, extra={'seed': seed})


def run_item(item):
    c, sk = dsw.setup(item['spec'], item['tier'], need_ref=False)
    if sk:
        return sk
    cap = CAP[item['tier']]
    random.seed(item.get('seed', 0))
    sig = dict(c.sig)
    res = {}
    for g in ('sat', 'rnd'):
        block = dsw.rebuild(c)
        try:
            T = block.trials_per_sample()
        except Exception as e:
            return core.skip('trials_per_sample raises (C08/C16)')
        exps, e, out = dsw.synth(block, cap + 1, g)
        if e is not None:
            return core.skip('%s raises %s (C08)' % (g, type(e).__name__))
        if len(exps) > cap:
            return core.skip('more than CAP sequences')
        try:
            tup = dsw.tuples(exps, c.design)
        except (KeyError, IndexError) as e2:
            return core.bad(core.viol('malformed_result', dict(sig, gen=g, exc=type(e2).__name__), design=dsw.brief(c.spec), message=str(e2)[:200]))
        res[g] = (set(tup), T, len(tup))
    s_sat, T1, n1 = res['sat']
    s_rnd, T2, n2 = res['rnd']
    nt = len(s_sat) >= 2 and len(s_rnd) >= 2
    if s_sat != s_rnd or T1 != T2:
        only_sat = sorted(s_sat - s_rnd)
        only_rnd = sorted(s_rnd - s_sat)
        kind = '+'.join(k for k, v in (('only_sat', only_sat), ('only_rnd', only_rnd)) if v) or 'T'
        return core.bad(core.viol('sets_differ', dict(sig, diff=kind), design=dsw.brief(c.spec), n_sat=len(s_sat), n_rnd=len(s_rnd),
                                  only_sat_example=only_sat[:1], only_rnd_example=only_rnd[:1], T=[T1, T2]),
                        states=n1 + n2, transitions=n1 + n2 + 2, nontrivial=nt, outcome=[len(s_sat), len(s_rnd)])
    return core.ok(states=max(1, n1 + n2), transitions=n1 + n2 + 2, validated=len(s_sat), nontrivial=nt, outcome=[len(s_sat), T1])


sample_of = dsw.sample_of
