"""C15 - derived factors must be total, unambiguous functions of their window.

E1 over the predicate space: EVERY table that maps each of the K = 4 regular window inputs of a two-level derived factor
to a SUBSET of its levels (4^4 = 256 tables: total, partial and overlapping), with and without an ElseLevel, for eight
window geometries (WithinTrial[A,B]; Transition[A]; Window width 2 stride 2 with default, early (0) and late (2) start; Window
width 2 stride 1 with early start 0, where the predicate also sees None, and with late start 2; a window over TWO factors with
early start), and three roles of the derived factor (crossed; in the
design only = implied; in the design and used by a constraint).
Oracle:  two levels accept the same input  =>  the block constructor raises ValueError;
         some input matches no level (no ElseLevel)  =>  every strategy returns [] (error reported), no exception;
         otherwise the exhausted IterateSATGen and RandomGen outputs equal the reference set: the one matching level at every
         trial where the factor applies, '' before its start / off its stride, and the predicate is handed None exactly for
         inputs before trial 0 (the table records the keys it is asked for).
"""
import itertools
import random
from collections import Counter
from vt import core, dsw, ref as R, build as B, gen

PROP = 'C15'
RULE = ('all 256 subset-valued tables over 4 window inputs x {no else, ElseLevel} x 8 geometries x 3 roles (quick: roles crossed+implied for '
        'every table, the constraint role for every 4th; thorough: everything, plus 3-level tables slice); states = sequences compared or '
        'refusals observed; non-trivial = the table is neither constant nor the parity/equality table used elsewhere.')
ASSUMPTIONS = ['reference model vt/ref.py for the total, unambiguous tables']
BUDGET_S = {'quick': 60, 'thorough': 300}
GEOMS = ['within', 'transition', 'w2s2', 'early', 'late', 'w2s2e0', 'w2s2l', 'two_early']
ROLES = ['crossed', 'implied', 'constrained']
SUBSETS = [[], [0], [1], [0, 1]]


def geometry(g):
    A = gen.basic('A', 2)
    Bf = gen.basic('B', 2)
    if g == 'within':
        keys = ['a0|b0', 'a0|b1', 'a1|b0', 'a1|b1']
        d = {'name': 'D', 'deps': ['A', 'B'], 'width': 1, 'stride': 1, 'start': None, 'kind': 'within'}
        extra = []
    else:
        keys = ['a0|a0', 'a0|a1', 'a1|a0', 'a1|a1']
        d = {'name': 'D', 'deps': ['A'], 'width': 2, 'stride': 1, 'start': None, 'kind': 'window'}
        extra = []
        if g == 'transition':
            d['kind'] = 'transition'; d['start'] = 1
        elif g == 'w2s2':
            d['stride'] = 2
        elif g == 'early':
            d['start'] = 0
            extra = ['~|a0', '~|a1']
        elif g == 'late':
            d['start'] = 2
        elif g == 'w2s2e0':        # stride 2 with an explicit early start: applies at trials 0, 2, ...
            d['stride'] = 2; d['start'] = 0
            extra = ['~|a0', '~|a1']
        elif g == 'w2s2l':         # stride 2 with an explicit late start: applies at trials 2, 4, ...
            d['stride'] = 2; d['start'] = 2
        elif g == 'two_early':     # a window over TWO factors with an early start; the table reads B's window only
            d['deps'] = ['A', 'B']; d['start'] = 0
            keys = ['%s|%s|%s|%s' % (ap, ac, bp, bc) for ap in ('a0', 'a1') for ac in ('a0', 'a1') for bp in ('b0', 'b1') for bc in ('b0', 'b1')]
            # every pattern with a missing previous value, including the mixed ones that cannot occur at run time but that the
            # constructor's coverage check asks about (A8)
            extra = ['%s|%s|%s|%s' % (ap, ac, bp, bc) for ap in ('~', 'a0', 'a1') for ac in ('a0', 'a1') for bp in ('~', 'b0', 'b1')
                     for bc in ('b0', 'b1') if '~' in (ap, bp)]
    return A, Bf, d, keys, extra


def items(tier, seed):
    out = []
    n = 0
    for g in GEOMS:
        for els in (False, True):
            tables = list(itertools.product(range(4), repeat=4)) if not els else list(itertools.product(range(2), repeat=4))
            for ti, tb in enumerate(tables):
                for role in ROLES:
                    if g in ('w2s2', 'w2s2e0', 'w2s2l') and role == 'crossed':
                        continue      # documented refusal: a factor with stride > 1 cannot be crossed
                    if tier == 'quick' and role == 'constrained' and (ti + seed) % 4:
                        continue
                    if tier == 'quick' and els and role == 'implied' and (ti + seed) % 2:
                        continue
                    extras = [0] if g not in ('early', 'w2s2e0', 'two_early') else ([0, 1, 2] if (tier == 'thorough' or (ti + seed) % 8 == 0) else [0, 1][:1 + (ti % 2)])
                    for ex in extras:
                        out.append({'g': g, 'else': els, 'table': list(tb), 'role': role, 'extra': ex, 'tier': tier})
    return out


def make_spec(item):
    A, Bf, d, keys, extra = geometry(item['g'])
    table = {}
    if item['g'] == 'two_early':
        proj = ['b0|b0', 'b0|b1', 'b1|b0', 'b1|b1']
        pairs = [(k, item['table'][proj.index('|'.join(k.split('|')[2:]))]) for k in keys]
    else:
        pairs = list(zip(keys, item['table']))
    for k, s in pairs:
        sub = SUBSETS[s]
        if item['else']:
            sub = [0] if s == 1 else []       # with an ElseLevel only level 0 has a predicate
        if sub:
            table[k] = list(sub)
    # inputs that contain None (early start): extra = 0 -> level 0 accepts them, 1 -> level 1 (or else) accepts, 2 -> nobody does
    for k in extra:
        if item['extra'] == 0:
            table[k] = [0]
        elif item['extra'] == 1 and not item['else']:
            table[k] = [1]
    d = dict(d, levels=[['d0', 1], ['d1', 1]], table=table, **{'else': 1 if item['else'] else None})
    names = ['A', 'B', 'D']
    role = item['role']
    if role == 'crossed':
        block = gen.cross(names, ['D'], [], True)
    elif role == 'implied':
        block = gen.cross(names, ['A', 'B'], [])
    else:
        block = gen.cross(names, ['A', 'B'], [{'c': 'AtMostKInARow', 'k': 3, 'factor': 'D', 'level': 'd0'}])
    return {'factors': [A, Bf, d], 'block': block}, keys, extra


def classify(item, keys, extra, table, els):
    """-> 'overlap' | 'uncovered' | 'total'"""
    allk = keys + extra
    if any(len(table.get(k, [])) > 1 for k in allk):
        return 'overlap'
    if not els and any(len(table.get(k, [])) == 0 for k in allk):
        return 'uncovered'
    return 'total'


def run_item(item):
    import sweetpea as sp
    spec, keys, extra = make_spec(item)
    table = spec['factors'][2]['table']
    cls = classify(item, keys, extra, table, item['else'])
    sig = {'geometry': item['g'], 'role': item['role'], 'else': item['else'], 'class': cls}
    tb = item['table']
    nt = len(set(tb)) > 1 and cls != 'total' or (cls == 'total' and tuple(tb) not in ((1, 2, 2, 1), (2, 1, 1, 2)))
    log = set()
    try:
        objs, block = core.quiet(B.build, spec, log)
        built = None
    except Exception as e:
        built = e
    if cls == 'overlap':
        if built is None:
            return core.bad(core.viol('overlap_not_rejected', sig, spec=dsw.brief(spec), table=table), nontrivial=nt, outcome=[cls, 'built'])
        if not isinstance(built, ValueError):
            return core.bad(core.viol('overlap_wrong_exception', dict(sig, exc=type(built).__name__), spec=dsw.brief(spec), table=table,
                                      message=str(built)[:200]), nontrivial=nt, outcome=[cls, type(built).__name__])
        return core.ok(nontrivial=nt, outcome=[cls, 'ValueError'])
    if built is not None:
        return core.bad(core.viol('constructor_raises', dict(sig, exc=type(built).__name__), spec=dsw.brief(spec), table=table,
                                  message=str(built)[:200]), nontrivial=nt, outcome=[cls, type(built).__name__])
    design = ['A', 'B', 'D']
    viols = []
    states = 0
    if cls == 'uncovered':
        for g in ('sat', 'rnd', 'cms', 'uni'):
            objs, block = core.quiet(B.build, spec)
            exps, e, out = dsw.synth(block, 3, g)
            states += 1
            if e is not None:
                viols.append(core.viol('uncovered_input_raises', dict(sig, gen=g, exc=type(e).__name__), spec=dsw.brief(spec), table=table,
                                       message=str(e)[:200]))
            elif exps:
                viols.append(core.viol('uncovered_input_returns_sequences', dict(sig, gen=g), spec=dsw.brief(spec), table=table,
                                       returned=len(exps), example=dsw.tuples(exps[:1], design)))
        if viols:
            return core.bad(viols, states=states, transitions=states, nontrivial=nt, outcome=[cls])
        return core.ok(states=states, transitions=states, nontrivial=nt, outcome=[cls, 'empty'])
    # total and unambiguous
    try:
        ref = R.solve(spec, limit=3000)
    except (R.RefOverflow, R.RefUnsupported):
        return core.skip('ref_overflow')
    N = dsw.ref_size(ref)
    random.seed(0)
    for g in ('sat', 'rnd'):
        log.clear()
        objs, block = core.quiet(B.build, spec, log)
        exps, e, out = dsw.synth(block, N + 10, g)
        if e is not None:
            viols.append(core.viol('exception', dict(sig, gen=g, exc=type(e).__name__), spec=dsw.brief(spec), table=table, message=str(e)[:200]))
            continue
        tup = dsw.tuples(exps, design)
        states += len(tup)
        cnt = Counter(tup)
        if dsw.match_exact(ref, cnt) is None:
            kinds, dd = dsw.diff_detail(ref, cnt)
            viols.append(core.viol('set_differs', dict(sig, gen=g, diff=kinds), spec=dsw.brief(spec), table=table, **dd))
        # the predicate must only ever be asked about keys that can occur: None exactly before trial 0
        asked_none = sorted(k for k in log if '~' in k)
        if asked_none and item['g'] not in ('early', 'w2s2e0', 'two_early'):
            viols.append(core.viol('predicate_handed_None', dict(sig, gen=g), spec=dsw.brief(spec), keys=asked_none))
        bad_none = [k for k in asked_none if k not in extra]
        if item['g'] == 'two_early':
            bad_none = []          # A8: mixed None patterns are asked at construction time
        if bad_none:
            viols.append(core.viol('predicate_handed_impossible_None_pattern', dict(sig, gen=g), spec=dsw.brief(spec), keys=bad_none))
    if viols:
        return core.bad(viols, states=max(1, states), transitions=2, nontrivial=nt, outcome=[cls, N])
    return core.ok(states=max(1, states), transitions=2, validated=N, nontrivial=nt, outcome=[cls, N])


def sample_of(item, res):
    spec, keys, extra = make_spec(item)
    return {'geometry': item['g'], 'role': item['role'], 'else_level': item['else'], 'table': spec['factors'][2]['table'],
            'outcome': res.get('outcome')}
