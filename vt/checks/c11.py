"""C11 - formula-to-CNF conversions preserve meaning.

E4: every formula tree up to the depth bound over atoms {1,2,3,-1} (And/Or of arity 0..A, If, Iff, Not), two
fresh-variable starting points, all 2^3 assignments of the original variables.
  tseitin  : clauses (through the real cnf_to_json) -> for each assignment, the set of extensions to the new
             variables is enumerated completely: exactly one iff the formula is true, none otherwise; new
             variables all in [next_variable, returned_next).
  naive    : returned tree evaluated structurally == formula on every assignment; no variable outside the formula's
             own; returned next-variable unchanged.
  switching: exists assignment of [next, returned_next) making the returned tree true  <=>  formula true; variables
             outside the originals all in the fresh range.
"""
import itertools
from vt import core, sat

PROP = 'C11'
RULE = ('all formula trees of depth<=2, plus every alternating binary And/Or tree of depth<=4 (nested switching variables) (thorough: plus arity-3 connectives and a depth-3 slice) over atoms {1,2,3,-1} with '
        'And/Or (arity 0..2), If, Iff, Not; x start variable in {4,10}; x 3 conversions; all 8 assignments each. '
        'States = (formula, conversion, assignment) triples decided; non-trivial = formula has both models and counter-models.')
ASSUMPTIONS = ['pycryptosat as SAT oracle for enumerating Tseitin extensions (formulas have <=20 variables)',
               'formula semantics: int literal (negative = negated variable), And([])=true, Or([])=false']
BUDGET_S = {'quick': 120, 'thorough': 600}
ATOMS = [1, 2, 3, -1]
CHUNK = 400


def level(prev, arity):
    out = list(prev)
    seen = set(map(core.canon, out))
    def add(f):
        k = core.canon(f)
        if k not in seen:
            seen.add(k); out.append(f)
    for op in ('And', 'Or'):
        for a in range(0, arity + 1):
            for args in itertools.product(prev, repeat=a):
                add([op, list(args)])
    for op in ('If', 'Iff'):
        for p, q in itertools.product(prev, repeat=2):
            add([op, p, q])
    for c in prev:
        add(['Not', c])
    return out


_CACHE = {}


def formulas(kind):
    if kind in _CACHE:
        return _CACHE[kind]
    d1 = level(ATOMS, 2)
    if kind == 'd2':
        fs = level(d1, 2)
    elif kind == 'a3':        # arity-3 connectives over depth<=1 formulas built from a reduced pool
        pool = [1, -1, 2, ['Not', 3], ['And', [1, 2]], ['Or', [2, 3]], ['Iff', 1, 3], ['If', 2, -1], ['And', []], ['Or', []],
                ['Not', ['And', [1, 2]]], ['Not', ['Iff', 1, 3]]]
        fs = level(pool, 3)
    elif kind == 'd3':        # depth-3 slice: one more layer over a reduced depth-2 pool
        pool = [1, -1, 3, ['Not', 2], ['And', [1, ['Not', 2]]], ['Or', [['And', [1, 2]], 3]], ['Iff', ['Or', [1, 2]], 3],
                ['If', ['And', [1, 3]], ['Or', [2, -1]]], ['Not', ['Iff', 1, 2]], ['Or', [['And', [1, 2]], ['And', [-1, 3]]]],
                ['And', [['Or', []], 3]], ['Or', [['And', []], 2]], ['Not', ['Not', ['And', [1, 2]]]],
                ['Or', [['And', [1, 2]], ['And', [2, 3]], ['And', [1, 3]]]]]
        fs = level(pool, 2)
    elif kind == 'alt':       # every alternating And/Or tree of depth<=4 (binary), leaves cycling through the literals:
        lits = [1, 2, 3, -1, -2, -3]   # nested switching variables, cache hits across equal subtrees
        def shapes(d):
            if d == 0:
                return [None]
            sub = [None] + shapes_cache[d - 1]
            return [(l, r) for l in sub for r in sub]
        shapes_cache = {}
        for d in range(1, 5):
            shapes_cache[d] = [x for x in shapes(d) if x is not None] if d > 1 else [(None, None)]
        fs = []
        for root in ('Or', 'And'):
            for sh in shapes_cache[4]:
                counter = [0]
                def buildf(s, op):
                    if s is None:
                        counter[0] += 1
                        return lits[(counter[0] - 1) % len(lits)]
                    other = 'And' if op == 'Or' else 'Or'
                    return [op, [buildf(s[0], other), buildf(s[1], other)]]
                fs.append(buildf(sh, root))
    else:
        raise ValueError(kind)
    _CACHE[kind] = fs
    return fs


def items(tier, seed):
    out = []
    kinds = ['d2', 'alt'] if tier == 'quick' else ['d2', 'alt', 'a3', 'd3']
    for kind in kinds:
        n = len(formulas(kind))
        for start in (4, 10):
            for lo in range(0, n, CHUNK):
                out.append({'kind': kind, 'lo': lo, 'hi': min(n, lo + CHUNK), 'start': start})
    return out


def to_lib(f):
    from sweetpea._internal.logic import And, Or, If, Iff, Not
    if isinstance(f, int):
        return f
    op = f[0]
    if op == 'And':
        return And([to_lib(x) for x in f[1]])
    if op == 'Or':
        return Or([to_lib(x) for x in f[1]])
    if op == 'If':
        return If(to_lib(f[1]), to_lib(f[2]))
    if op == 'Iff':
        return Iff(to_lib(f[1]), to_lib(f[2]))
    if op == 'Not':
        return Not(to_lib(f[1]))
    raise ValueError(op)


def ev(f, a):
    if isinstance(f, int):
        return a[f] if f > 0 else not a[-f]
    op = f[0]
    if op == 'And':
        return all(ev(x, a) for x in f[1])
    if op == 'Or':
        return any(ev(x, a) for x in f[1])
    if op == 'If':
        return (not ev(f[1], a)) or ev(f[2], a)
    if op == 'Iff':
        return ev(f[1], a) == ev(f[2], a)
    if op == 'Not':
        return not ev(f[1], a)


def ev_lib(f, a):
    """Structural evaluation of a library formula tree (namedtuples)."""
    from sweetpea._internal.logic import And, Or, If, Iff, Not
    if isinstance(f, bool):
        raise core.HarnessError('bool in formula')
    if isinstance(f, int):
        return a[f] if f > 0 else not a[-f]
    if isinstance(f, And):
        return all(ev_lib(x, a) for x in f.input_list)
    if isinstance(f, Or):
        return any(ev_lib(x, a) for x in f.input_list)
    if isinstance(f, If):
        return (not ev_lib(f.p, a)) or ev_lib(f.q, a)
    if isinstance(f, Iff):
        return ev_lib(f.p, a) == ev_lib(f.q, a)
    if isinstance(f, Not):
        return not ev_lib(f.c, a)
    raise TypeError('unexpected node %r' % (f,))


def vars_lib(f, acc):
    from sweetpea._internal.logic import And, Or, If, Iff, Not
    if isinstance(f, int):
        acc.add(abs(f))
    elif isinstance(f, (And, Or)):
        for x in f.input_list:
            vars_lib(x, acc)
    elif isinstance(f, (If, Iff)):
        vars_lib(f.p, acc); vars_lib(f.q, acc)
    elif isinstance(f, Not):
        vars_lib(f.c, acc)
    return acc


def shape(f):
    """coarse shape used in violation signatures: connective at the root and whether a negation sits on a compound."""
    def neg_compound(g):
        if isinstance(g, int):
            return False
        if g[0] == 'Not' and not isinstance(g[1], int):
            return True
        if g[0] in ('If', 'Iff'):   # eliminated into negations of p / q
            return any(not isinstance(x, int) for x in g[1:]) or any(neg_compound(x) for x in g[1:])
        if g[0] == 'Not':
            return neg_compound(g[1])
        return any(neg_compound(x) for x in g[1])
    def has_empty_or(g):
        if isinstance(g, int):
            return False
        if g[0] in ('And', 'Or'):
            return (len(g[1]) == 0) or any(has_empty_or(x) for x in g[1])
        return any(has_empty_or(x) for x in g[1:])
    return {'neg_compound': neg_compound(f), 'has_empty_junction': has_empty_or(f)}


ORIG = [1, 2, 3]


def check_formula(f, start, viols, counters):
    from sweetpea._internal import logic
    lf = to_lib(f)
    truth = {}
    for bits in itertools.product((False, True), repeat=3):
        a = dict(zip(ORIG, bits))
        truth[bits] = ev(f, a)
    nontrivial = len(set(truth.values())) == 2
    sh = shape(f)
    # ---- tseitin
    try:
        res, nxt = logic.to_cnf_tseitin(lf, start)
        clauses = logic.cnf_to_json([res])
    except Exception as e:
        viols.append(core.viol('tseitin_exception', dict(sh, exc=type(e).__name__), formula=f, start=start, message=str(e)[:200]))
        clauses = None
    if clauses is not None:
        used = set(sat.variables_of(clauses))
        new = sorted(used - set(ORIG))
        if any(not (start <= v < nxt) for v in new):
            viols.append(core.viol('tseitin_fresh_range', sh, formula=f, start=start, new=new, returned_next=nxt))
        over = ORIG + [v for v in range(start, max(nxt, start)) ] + [v for v in new if not (start <= v < nxt)]
        models = sat.all_models(clauses, over=over, limit=200)
        by = {}
        for m in models:
            key = tuple(l > 0 for l in m[:3])
            by[key] = by.get(key, 0) + 1
        counters['transitions'] += len(models) + 1
        for bits, t in truth.items():
            counters['states'] += 1
            n = by.get(bits, 0)
            # variables in the fresh range that occur in no clause are free: they double the count -> not unique
            if t and n != 1:
                viols.append(core.viol('tseitin_models' if n == 0 else 'tseitin_not_unique', sh, formula=f, start=start,
                                       assignment=list(bits), extensions=n))
                break
            if not t and n != 0:
                viols.append(core.viol('tseitin_extra_model', sh, formula=f, start=start, assignment=list(bits)))
                break
    # ---- naive
    try:
        res, nxt = logic.to_cnf_naive(lf, start)
    except Exception as e:
        viols.append(core.viol('naive_exception', dict(sh, exc=type(e).__name__), formula=f, start=start, message=str(e)[:200]))
        res = None
    if res is not None:
        if nxt != start:
            viols.append(core.viol('naive_next_variable_changed', sh, formula=f, start=start, returned_next=nxt))
        vs = vars_lib(res, set())
        if not vs <= vars_plain(f):
            viols.append(core.viol('naive_new_variable', sh, formula=f, start=start, vars=sorted(vs)))
        else:
            for bits, t in truth.items():
                counters['states'] += 1; counters['transitions'] += 1
                if ev_lib(res, dict(zip(ORIG, bits))) != t:
                    viols.append(core.viol('naive_not_equivalent', sh, formula=f, start=start, assignment=list(bits)))
                    break
    # ---- switching
    try:
        res, nxt = logic.to_cnf_switching(lf, start)
    except Exception as e:
        viols.append(core.viol('switching_exception', dict(sh, exc=type(e).__name__), formula=f, start=start, message=str(e)[:200]))
        res = None
    if res is not None:
        vs = vars_lib(res, set())
        new = sorted(vs - set(ORIG))
        if any(not (start <= v < nxt) for v in new):
            viols.append(core.viol('switching_fresh_range', sh, formula=f, start=start, new=new, returned_next=nxt))
        elif len(new) > 12:
            raise core.HarnessError('too many switching variables')
        else:
            for bits, t in truth.items():
                counters['states'] += 1
                a = dict(zip(ORIG, bits))
                found = False
                for nb in itertools.product((False, True), repeat=len(new)):
                    counters['transitions'] += 1
                    a.update(zip(new, nb))
                    if ev_lib(res, a):
                        found = True
                        break
                if found != t:
                    viols.append(core.viol('switching_not_equisatisfiable', sh, formula=f, start=start, assignment=list(bits)))
                    break
    return nontrivial


def vars_plain(f):
    if isinstance(f, int):
        return {abs(f)}
    out = set()
    for x in (f[1] if f[0] in ('And', 'Or') else f[1:]):
        out |= vars_plain(x)
    return out


def run_item(item):
    fs = formulas(item['kind'])[item['lo']:item['hi']]
    viols = []
    counters = {'states': 0, 'transitions': 0}
    nt = 0
    for f in fs:
        if check_formula(f, item['start'], viols, counters):
            nt += 1
    outcome = [item['kind'], item['lo'], item['start'], nt, counters['states']]
    if viols:
        first = {}
        for v in viols:
            first.setdefault(core.canon(v['sig']), v)
        return core.bad(list(first.values()), counters['states'], counters['transitions'], 0, nt > 0, outcome,
                        n_formulas=len(fs), n_nontrivial=nt, n_viol=len(viols))
    return core.ok(counters['states'], counters['transitions'], 0, nt > 0, outcome, n_formulas=len(fs), n_nontrivial=nt)


def finalize(items_, results, tier):
    return {'formulas': sum(r.get('n_formulas', 0) for r in results),
            'formulas_nontrivial': sum(r.get('n_nontrivial', 0) for r in results)}


def sample_of(item, res):
    fs = formulas(item['kind'])
    return {'chunk': item, 'first_formula': fs[item['lo']], 'last_formula': fs[item['hi'] - 1]}
