"""C01 - formula-based samplers return only valid trial sequences.

E1 x E2 over the solver seam.  For every design:
  * CMSGen and UniGen (and UniformGen when it chooses UniGen) are driven through synthesize_trials with pycmsgen /
    pyunigen replaced at their import seams by fakes that enumerate ALL models (projected onto the sampling set) of the
    clauses the library handed them through its own DIMACS file and parser, and return each exactly once - so every
    model the real samplers may return is decoded by the real pipeline (file -> parser -> solver -> output text ->
    parser -> decode -> implied levels -> hidden-key filter);
  * IterateSATGen (and IterateGen when it chooses it) is driven to exhaustion three times: with the real pycryptosat,
    and with a scripted pycryptosat that always answers the lexicographically smallest / largest remaining model
    (solver-answer schedules).
Oracle: every returned sequence is in (one reading of) the reference set: documented trial count, level names, derived
levels, crossing with weights, every constraint on its windows.  Exceptions are C08's subject (skipped, counted).
"""
from collections import Counter
from vt import core, dsw, seams, sat

PROP = 'C01'
RULE = ('designs of strata S1, S1x, S2, S3, S4, S5, S6 (quick: fixed core + seed-rotated slice) with <= REF_LIMIT reference sequences and '
        '<= CAP projected models; per design every model of the compiled formula is returned once by the fake CMSGen / UniGen and the '
        'IterateSATGen loop is exhausted under 3 solver-answer orders. states = sequences checked against the reference, '
        'transitions = sampler calls. Non-trivial = the design has a constraint or derived factor and an assignment of its basic '
        'factors that is NOT valid (so an under-constraining encoder would be noticed) and >= 1 valid sequence.')
ASSUMPTIONS = ['reference model vt/ref.py (documented semantics; readings where under-specified)',
               'the fakes speak the pycmsgen / pyunigen / pycryptosat interface as the library uses it (C27 checks the text protocol; '
               'the real samplers are additionally run once per design as a non-deciding smoke test)']
BUDGET_S = {'quick': 90, 'thorough': 400}
STRATA = ['S1', 'S1L', 'S1n', 'S1p', 'S1x', 'S2', 'S2s', 'S3', 'S4', 'S5', 'S6']
QUICK_CAPS = dsw.QUICK_CAPS_BIG
CAP = {'quick': 250, 'thorough': 1000}
N_LARGE = {'quick': 60, 'thorough': 200}


def items(tier, seed):
    return dsw.design_items(STRATA, tier, seed, QUICK_CAPS)


def run_item(item):
    import numpy
    c, sk = dsw.setup(item['spec'], item['tier'], fallback_checker=True)
    if sk:
        return sk
    if c.ref is None:
        return run_large(item, c)
    cap = CAP[item['tier']]
    sig0 = dict(c.sig)
    viols = []
    states = transitions = validated = 0
    skipped = []
    runs = []
    complex_ = bool(getattr(c.block, 'complex_factors_or_constraints', True))
    plan = [('cms', 'fake'), ('uni', 'fake'), ('sat', 'real'), ('sat', 'asc'), ('sat', 'desc')]
    if complex_:
        plan += [('uniform', 'fake'), ('iter', 'real')]
    nref = dsw.ref_size(c.ref)
    for g, how in plan:
        block = dsw.rebuild(c)
        sig = dict(sig0, gen=g, solver=how)
        try:
            if how == 'fake':
                st = seams.SamplerState(cap=cap)
                support = block.variables_per_sample()
                with seams.fake_samplers(st, over=list(range(1, support + 1))):
                    try:
                        # first call learns the number of models, second call asks for exactly that many
                        exps, e, out = dsw.synth(block, 1, g)
                        n = len(st.models or [])
                        if e is None and n > 1:
                            st2 = seams.SamplerState(cap=cap)
                            st2.over = st.over
                            block = dsw.rebuild(c)
                            with seams.fake_samplers(st2, over=list(range(1, support + 1))):
                                exps, e, out = dsw.synth(block, n, g)
                            if e is None and (st2.models is None or len(st2.models) != n):
                                raise core.HarnessError('model count changed between two compilations of the same design')
                    except seams.StopExploration:
                        skipped.append('%s: more than CAP models' % g)
                        continue
                if e is None and st.models is not None and len(exps) != len(st.models) and n > 0:
                    viols.append(core.viol('sampler_output_lost', sig, design=dsw.brief(c.spec), models=len(st.models), returned=len(exps)))
            elif how == 'real':
                exps, e, out = dsw.synth(block, nref + 20, g)
            else:
                log = []
                with seams.scripted_cryptominisat(how, block.variables_per_sample(), log):
                    exps, e, out = dsw.synth(block, nref + 20, g)
        except seams.StopExploration:
            skipped.append('%s: more than CAP models' % g)
            continue
        transitions += 1
        if e is not None:
            skipped.append('%s raises %s (C08)' % (g, type(e).__name__))
            continue
        try:
            tup = dsw.tuples(exps, c.design)
        except (KeyError, IndexError) as e2:
            viols.append(core.viol('malformed_result', dict(sig, exc=type(e2).__name__), design=dsw.brief(c.spec), message=str(e2)[:200]))
            continue
        states += len(tup)
        runs.append((g, how, len(tup)))
        if dsw.match_subset(c.ref, tup) is None:
            kinds, d = dsw.diff_detail(c.ref, Counter(set(tup)))
            d.pop('missing_count', None); d.pop('missing_example', None)
            viols.append(core.viol('invalid_sequence', sig, design=dsw.brief(c.spec), **d))
        else:
            validated += len(tup)
    nt = bool(c.spec['block'].get('constraints') or any('deps' in f for f in c.spec['factors'])) and dsw.ref_size(c.ref) >= 1
    outcome = [runs, len(skipped)]
    if viols:
        first = {}
        for v in viols:
            first.setdefault(core.canon(v['sig']), v)
        return core.bad(list(first.values()), states=max(1, states), transitions=max(1, transitions), validated=validated, nontrivial=nt,
                        outcome=outcome, skipped_runs=skipped)
    if not runs:
        return core.skip('; '.join(skipped)[:120] or 'no run')
    return core.ok(states=max(1, states), transitions=max(1, transitions), validated=validated, nontrivial=nt, outcome=outcome,
                   skipped_runs=skipped)


def run_large(item, c):
    """The valid set is too large to enumerate: a bounded number of solver answers (IterateSATGen under the three answer
    orders, n = N_LARGE each; the real CMSGen / UniGen as a supplement) is checked with the single-sequence membership oracle.
    Not exhaustive over the models of such a design (reported per item)."""
    import numpy
    n = N_LARGE[item['tier']]
    viols = []
    states = transitions = 0
    runs = []
    numpy.random.seed(0)
    for g, how in (('sat', 'real'), ('sat', 'asc'), ('sat', 'desc'), ('cms', 'real'), ('uni', 'real')):
        block = dsw.rebuild(c)
        sig = dict(c.sig, gen=g, solver=how, large=True)
        if how in ('asc', 'desc'):
            log = []
            with seams.scripted_cryptominisat(how, block.variables_per_sample(), log):
                exps, e, out = dsw.synth(block, n, g)
        else:
            exps, e, out = dsw.synth(block, n if g == 'sat' else 10, g)
        transitions += 1
        if e is not None:
            continue
        try:
            tup = dsw.tuples(exps, c.design)
        except (KeyError, IndexError) as e2:
            viols.append(core.viol('malformed_result', dict(sig, exc=type(e2).__name__), design=dsw.brief(c.spec), message=str(e2)[:200]))
            continue
        states += len(tup)
        runs.append((g, how, len(tup)))
        ok, bad = dsw.all_valid(c, tup)
        if not ok:
            viols.append(core.viol('invalid_sequence', sig, design=dsw.brief(c.spec), invalid_example=bad, T_ref=c.checker.Ts))
    if viols:
        return core.bad(viols, states=max(1, states), transitions=max(1, transitions), nontrivial=True, outcome=[runs, 'large'])
    if not runs:
        return core.skip('every strategy raises (C08)')
    return core.ok(states=max(1, states), transitions=max(1, transitions), validated=states, nontrivial=True, outcome=[runs, 'large'],
                   exhaustive_over_models=False)


def finalize(items_, results, tier):
    return {'designs_checked_by_membership_oracle_only': sum(1 for r in results if r.get('exhaustive_over_models') is False)}


sample_of = dsw.sample_of
