"""C05 - RandomGen samples uniformly: one accepted candidate per valid sequence.

Same exploration as C04 (the whole choice tree of one candidate, vt/rnd.py).  Oracle: the map candidate -> sequence
restricted to accepted candidates is a bijection onto the reference multiset (every valid sequence is produced by
exactly `multiplicity` accepted candidates - one unless a weighted factor outside the crossing makes copies); the number
of leaves of the choice tree equals preamble_solution_count * solution_count^rounds * leftover_solution_count (the
number of equally likely keys the sampler believes it draws from).
"""
from vt.checks import c04
from vt import dsw

PROP = 'C05'
RULE = ('designs as in C04 (strata S1..S6, candidate tree <= CAP leaves, fully explored); states = candidates, transitions = choice points; '
        'non-trivial = >= 2 valid sequences and a derived factor, weight, leftover or rejection involved.')
ASSUMPTIONS = c04.ASSUMPTIONS + ['each leaf of the choice tree is equally likely (every draw is uniform over its range and the shape of the '
                                 'tree is what the enumerator reports as possible keys - checked)']
BUDGET_S = c04.BUDGET_S
STRATA = c04.STRATA
QUICK_CAPS = c04.QUICK_CAPS


def items(tier, seed):
    return c04.items(tier, seed)


def run_item(item):
    return c04.run_item(item, mode='bijection')


sample_of = dsw.sample_of
