"""C20 - output conversions preserve trials and hide internal factors.

E1 x E4: for discrete designs (including hidden weight factors and implied derived factors, Repeat and Nest) and two kinds of
experiments lists - (a) the results of synthesize_trials (IterateSATGen and RandomGen), (b) ALL well-formed lists of one or two
experiments of length <= 2 over the level names, with the dict keys inserted in every order -
experiments_to_tuples, experiments_to_dicts and save_experiments_csv must reproduce, per experiment and per trial in order,
exactly the values of each user-declared factor (tuple/column order = the order of the design); the CSV has one header row of
factor names and one row per trial, one file per experiment.  No key, tuple slot or column may belong to a factor the library
introduced internally (HiddenName), and synthesized results contain exactly the declared factor names.
"""
import csv
import itertools
import os
import random
from vt import core, dsw, gen, build as B

PROP = 'C20'
RULE = ('designs of strata S1, S2, S2s, S4, S6 (quick: stratified core) x {synthesized results of 2 strategies, all well-formed experiment lists of '
        '<= 2 experiments x <= 2 trials x every key order (capped per design)}; states = experiments lists converted, transitions = conversion '
        'calls; non-trivial = the design has >= 3 user factors, a hidden factor or an implied factor (order and filtering matter).')
ASSUMPTIONS = ['column/tuple order is the order in which the factors were declared in the design', 'discrete designs only (A9)']
BUDGET_S = {'quick': 60, 'thorough': 300}
STRATA = ['S1', 'S1n', 'S2', 'S2s', 'S4', 'S6']
QUICK_CAPS = {'S1': 150, 'S2': 150, 'S4': 60, 'S6': 80}
ARB_CAP = {'quick': 60, 'thorough': 600}


def items(tier, seed):
    out = dsw.design_items(STRATA, tier, seed, QUICK_CAPS, extra={'seed': seed})
    # the same single-block designs with a weighted basic factor, plus a continuous factor X in the design (quick: first 40)
    extra = []
    for it in out:
        b = it['spec']['block']
        if b['op'] == 'cross' and any('deps' not in f and any(w > 1 for _, w in f['levels']) for f in it['spec']['factors']):
            extra.append(dict(it, continuous=True))
    return out + (extra[:40] if tier == 'quick' else extra)


def build_with_continuous(spec):
    import sweetpea as sp
    from vt import build as B
    objs = B.build_factors(spec)
    b = spec['block']
    X = sp.ContinuousFactor('X', distribution=sp.UniformDistribution(0.0, 1.0))
    cs = [B.build_constraint(c, objs) for c in b.get('constraints', [])]
    return sp.CrossBlock([objs[n] for n in b['design']] + [X], [objs[n] for n in b['crossing']], cs, b.get('rcc', True))


def check_conversions(block, design, exps, sig, viols, spec):
    import sweetpea as sp
    from sweetpea._internal.primitive import HiddenName
    n = 0
    want_tuples = [[tuple(e[nm][t] for nm in design) for t in range(len(e[design[0]]))] for e in exps]
    try:
        got = core.quiet(sp.experiments_to_tuples, block, exps)
        n += 1
        if [list(map(tuple, x)) for x in got] != want_tuples:
            viols.append(core.viol('tuples_differ', sig, design=dsw.brief(spec), got=[list(map(list, x)) for x in got][:1], expected=want_tuples[:1]))
    except Exception as e:
        viols.append(core.viol('tuples_raises', dict(sig, exc=type(e).__name__), design=dsw.brief(spec), message=str(e)[:200]))
    try:
        got = core.quiet(sp.experiments_to_dicts, block, exps)
        n += 1
        want = [[{nm: e[nm][t] for nm in design} for t in range(len(e[design[0]]))] for e in exps]
        if got != want or any(list(d.keys()) != design for x in got for d in x):
            viols.append(core.viol('dicts_differ', sig, design=dsw.brief(spec), got=str(got[:1])[:300], expected=str(want[:1])[:300]))
        if any(isinstance(k, HiddenName) for x in got for d in x for k in d):
            viols.append(core.viol('hidden_factor_exposed', dict(sig, where='dicts'), design=dsw.brief(spec)))
    except Exception as e:
        viols.append(core.viol('dicts_raises', dict(sig, exc=type(e).__name__), design=dsw.brief(spec), message=str(e)[:200]))
    prefix = 'c20_%d' % os.getpid()
    try:
        core.quiet(sp.save_experiments_csv, block, exps, prefix)
        n += 1
        files = sorted(f for f in os.listdir('.') if f.startswith(prefix + '_'))
        if len(files) != len(exps):
            viols.append(core.viol('csv_file_count', sig, design=dsw.brief(spec), files=len(files), experiments=len(exps)))
        for i, e in enumerate(exps):
            fn = '%s_%d.csv' % (prefix, i)
            if not os.path.exists(fn):
                continue
            rows = list(csv.reader(open(fn, newline='')))
            want_rows = [design] + [[str(e[nm][t]) for nm in design] for t in range(len(e[design[0]]))]
            if rows != want_rows:
                viols.append(core.viol('csv_differs', sig, design=dsw.brief(spec), got=rows[:3], expected=want_rows[:3]))
                break
    except Exception as e:
        viols.append(core.viol('csv_raises', dict(sig, exc=type(e).__name__), design=dsw.brief(spec), message=str(e)[:200]))
    finally:
        for f in os.listdir('.'):
            if f.startswith(prefix + '_'):
                os.unlink(f)
    return n


def run_item(item):
    from sweetpea._internal.primitive import HiddenName
    c, sk = dsw.setup(item['spec'], item['tier'], need_ref=False)
    if sk:
        return sk
    spec = c.spec
    design = c.design
    fm = {f['name']: f for f in spec['factors']}
    viols = []
    states = calls = 0
    random.seed(item.get('seed', 0))
    hidden = any(isinstance(f.name, HiddenName) for f in c.block.design)
    implied = len(getattr(c.block, 'act_design', [])) < len(c.block.design)
    # (a) synthesized
    cont = bool(item.get('continuous'))
    if cont:
        design = design + ['X']
    for g in ('sat', 'rnd'):
        block = core.quiet(build_with_continuous, spec) if cont else dsw.rebuild(c)
        exps, e, out = dsw.synth(block, 3, g)
        if e is not None or not exps:
            continue
        sig = dict(c.sig, source=g)
        keys = [k for k in exps[0].keys()]
        if any(isinstance(k, HiddenName) for k in keys):
            viols.append(core.viol('hidden_factor_exposed', dict(sig, where='synthesize_trials'), design=dsw.brief(spec), keys=[str(k) for k in keys]))
        if sorted(map(str, keys)) != sorted(design):
            viols.append(core.viol('synthesized_columns_differ', sig, design=dsw.brief(spec), keys=sorted(map(str, keys)), declared=sorted(design)))
            continue
        states += 1
        calls += check_conversions(block, design, exps, sig, viols, spec)
    if cont:
        if viols:
            return core.bad(viols[:6], states=max(1, states), transitions=max(1, calls), nontrivial=True, outcome=[len(design), hidden, 'continuous'])
        return core.ok(states=max(1, states), transitions=max(1, calls), validated=states, nontrivial=True, outcome=[len(design), hidden, 'continuous'])
    # (b) arbitrary well-formed lists, every key order
    block = dsw.rebuild(c)
    per_trial = list(itertools.product(*[[l for l, _ in fm[n]['levels']] for n in design]))
    seqs = [s for L in (1, 2) for s in itertools.product(per_trial, repeat=L)]
    step = max(1, len(seqs) // 12)
    chosen = seqs[::step][:14]
    lists = [[s] for s in chosen] + [[a, b] for a, b in zip(chosen, chosen[1:]) if len(a) == len(b)]
    orders = list(itertools.permutations(design))
    done = 0
    for li, lst in enumerate(lists):
        for oi, order in enumerate(orders):
            if (li + oi) % max(1, (len(lists) * len(orders)) // ARB_CAP[item['tier']]) and len(lists) * len(orders) > ARB_CAP[item['tier']]:
                continue
            exps = []
            for s in lst:
                e = {}
                for nm in order:
                    e[nm] = [s[t][design.index(nm)] for t in range(len(s))]
                exps.append(e)
            states += 1
            done += 1
            calls += check_conversions(block, design, exps, dict(c.sig, source='arbitrary'), viols, spec)
            if viols:
                break
        if viols:
            break
    nt = len(design) >= 3 or hidden or implied
    if viols:
        first = {}
        for v in viols:
            first.setdefault(core.canon(v['sig']), v)
        return core.bad(list(first.values())[:6], states=max(1, states), transitions=max(1, calls), nontrivial=nt, outcome=[len(design), hidden, implied])
    return core.ok(states=max(1, states), transitions=max(1, calls), validated=states, nontrivial=nt, outcome=[len(design), hidden, implied, done])


sample_of = dsw.sample_of
