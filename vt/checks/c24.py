"""C24 - documented block-combinator equivalences hold.

E1 over the law parameter space (no oracle: the library is compared with itself on the two sides of each documented law,
both sides built from fresh objects and exhausted through IterateSATGen, trial counts compared as well):
  L1  MultiCrossBlock(design, crossings, cs, rcc, mode, alignment)  ==  Merge([CrossBlock(design, c, [], rcc) for c in crossings], cs, mode, alignment)
  L2  Repeat(block, cs)  ==  Merge([block], cs, REPEAT, EQUAL_PREAMBLE)
  L3  Repeat(block, [])  ==  Merge([block])  ==  block
  L4  CrossBlock(design, crossing, cs)  ==  MultiCrossBlock(design, [crossing], cs, mode=WEIGHT)
  LD  Merge(blocks) with no alignment given == Merge(blocks, [], REPEAT, alignment of the first block) == the MultiCrossBlock of L1
  H   L3 again after other combinators (of constrained blocks, all arguments at their defaults) were built in the same process
If exactly one side can be constructed, that is a violation; if neither can, the instance is skipped.
"""
from collections import Counter
from vt import core, dsw, gen, build as B

PROP = 'C24'
RULE = ('L1: 7 crossing configurations (equal/unequal sizes and preambles) x 3 modes x 3 alignments x constraint menu x rcc; L2/L3: every inner '
        'block of the Repeat stratum x combinator constraints x MinimumTrials, plus inner blocks with an Exclude of their own and single-/two-crossing '
        'MultiCrossBlocks under each alignment with an uncrossed Transition; L4: single-block stratum S1 (quick: stratified core). '
        'states = sequences compared on both sides; non-trivial = both sides constructed and >= 2 sequences.')
ASSUMPTIONS = ['none beyond the law text (differential check); designs with <= CAP sequences']
BUDGET_S = {'quick': 60, 'thorough': 300}
CAP = {'quick': 600, 'thorough': 1500}


def law_items(tier, seed):
    out = []
    # L1
    for d in gen.s5(tier):
        b = d['block']
        if b['op'] != 'multi':
            continue
        for rcc in (True,):
            multi = dict(b, rcc=rcc)
            merge = {'op': 'merge', 'blocks': [gen.cross(b['design'], c, [], rcc) for c in b['crossings']], 'constraints': b['constraints'],
                     'mode': b['mode'], 'alignment': b['alignment']}
            out.append({'law': 'L1', 'factors': d['factors'], 'sides': [multi, merge], 'tier': tier})
    # L2 / L3
    for d in gen.s4(tier):
        b = d['block']
        if b['op'] != 'repeat':
            continue
        inner = b['block']
        merge = {'op': 'merge', 'blocks': [inner], 'constraints': b['constraints'], 'mode': 'repeat', 'alignment': 'equal preamble'}
        out.append({'law': 'L2', 'factors': d['factors'], 'sides': [b, merge], 'tier': tier})
        if inner['op'] == 'multi' and not b['constraints']:
            out.append({'law': 'L3', 'factors': d['factors'], 'sides': [b, {'op': 'merge', 'blocks': [inner], 'constraints': []}, inner], 'tier': tier})
    seen = set()
    for fs, inner in gen.inner_blocks(tier):
        k = core.canon(inner)
        if k in seen:
            continue
        seen.add(k)
        rep = {'op': 'repeat', 'block': inner, 'constraints': []}
        mer = {'op': 'merge', 'blocks': [inner], 'constraints': []}
        out.append({'law': 'L3', 'factors': fs, 'sides': [rep, mer, inner], 'tier': tier})
    # L2 / L3 on inner blocks with constraints of their own that change the crossing (Exclude), and on single- and two-crossing
    # MultiCrossBlocks whose alignment is not the default (an uncrossed Transition makes the unified preamble longer than the
    # crossing's own)
    A = gen.basic('A', 2); Bf = gen.basic('B', 2); C3 = gen.basic('C', 3)
    fm0 = {'A': A, 'B': Bf, 'C': C3}
    TB = gen.window('TB', ['B'], fm0, 2, gen.same, kind='transition', start=1)
    mt = lambda k: [{'c': 'MinimumTrials', 'k': k}]
    pool = []
    for ex in ([{'c': 'Exclude', 'factor': 'C', 'level': 'c2'}], [{'c': 'Exclude', 'factor': 'A', 'level': 'a1'}]):
        for cr in (['A', 'C'], ['C'], ['A']):
            pool.append(([A, Bf, C3], gen.cross(['A', 'B', 'C'], cr, ex, False), True))
    for al in ('post preamble', 'parallel start', 'equal preamble'):
        for mode in ('repeat', 'weight'):
            for cs in ([], mt(3), mt(5)):
                pool.append(([A, Bf, TB], {'op': 'multi', 'design': ['A', 'B', 'TB'], 'crossings': [['A']], 'constraints': cs, 'rcc': True,
                                           'mode': mode, 'alignment': al}, al == 'equal preamble'))
            pool.append(([A, Bf, TB], {'op': 'multi', 'design': ['A', 'B', 'TB'], 'crossings': [['A'], ['TB']], 'constraints': [], 'rcc': True,
                                       'mode': mode, 'alignment': al}, al == 'equal preamble'))
    for fs, inner, l2 in pool:
        sides = [{'op': 'repeat', 'block': inner, 'constraints': []}, {'op': 'merge', 'blocks': [inner], 'constraints': []}, inner]
        if len(inner.get('crossings', [])) > 1:
            sides = sides[1:]      # documented: Repeat needs equal preambles when the block has several crossings
        out.append({'law': 'L3', 'factors': fs, 'sides': sides, 'tier': tier})
        if l2:
            for cs in (mt(5), [{'c': 'AtMostKInARow', 'k': 1, 'factor': 'B', 'level': 'b0'}]):
                out.append({'law': 'L2', 'factors': fs, 'sides': [{'op': 'repeat', 'block': inner, 'constraints': cs},
                                                                   {'op': 'merge', 'blocks': [inner], 'constraints': cs, 'mode': 'repeat',
                                                                    'alignment': 'equal preamble'}], 'tier': tier})
    # LD ("if alignment is not specified, it defaults to the alignment of the first block"): Merge(blocks) == Merge(blocks, [], REPEAT, al)
    for al in ('post preamble', 'parallel start'):
        for crs in ([['A']], [['TB']]), ([['TB']], [['A']]), ([['A']], [['B', 'TB']]):
            bl = [{'op': 'multi', 'design': ['A', 'B', 'TB'], 'crossings': c, 'constraints': [], 'rcc': True, 'mode': 'repeat', 'alignment': al}
                  for c in crs]
            out.append({'law': 'LD', 'factors': [A, Bf, TB], 'tier': tier,
                        'sides': [{'op': 'merge', 'blocks': bl, 'constraints': []},
                                  {'op': 'merge', 'blocks': bl, 'constraints': [], 'mode': 'repeat', 'alignment': al},
                                  {'op': 'multi', 'design': ['A', 'B', 'TB'], 'crossings': [c[0] for c in crs], 'constraints': [], 'rcc': True,
                                   'mode': 'repeat', 'alignment': al}]})
    # H: the laws must not depend on what was built before in the same process (default arguments are shared objects):
    # first build Merge / Nest of a CONSTRAINED block with every argument at its default, then check L3 on an unconstrained block
    A = gen.basic('A', 2); Bf = gen.basic('B', 2); O = gen.basic('O', 2)
    for pc in ([{'c': 'AtMostKInARow', 'k': 1, 'factor': 'B', 'level': 'b0'}], [{'c': 'Pin', 'index': 0, 'factor': 'B', 'level': 'b1'}],
               [{'c': 'ExactlyK', 'k': 1, 'factor': 'B', 'level': 'b0'}]):
        constrained = gen.cross(['A', 'B'], ['A'], pc)
        for prime in ({'op': 'merge', 'blocks': [constrained], 'constraints': []},
                      {'op': 'nest', 'outer': gen.cross(['O'], ['O']), 'inner': constrained, 'constraints': []}):
            for target in (gen.cross(['A', 'B'], ['A']), gen.cross(['A', 'B'], ['A', 'B'])):
                out.append({'law': 'H', 'factors': [A, Bf, O], 'prime': [prime, prime], 'tier': tier,
                            'sides': [{'op': 'merge', 'blocks': [target], 'constraints': []}, target]})
                out.append({'law': 'H', 'factors': [A, Bf, O], 'prime': [prime], 'tier': tier,
                            'sides': [{'op': 'nest', 'outer': gen.cross(['O'], ['O']), 'inner': target, 'constraints': []},
                                      {'op': 'nest', 'outer': gen.cross(['O'], ['O']), 'inner': target, 'constraints': [{'c': 'MinimumTrials', 'k': 1}]}]})
    # L4
    s1 = gen.designs(['S1', 'S2s'], tier, seed, {'S1': 160} if tier == 'quick' else None)
    for d in s1:
        b = d['block']
        if b['op'] != 'cross':
            continue
        multi = {'op': 'multi', 'design': b['design'], 'crossings': [b['crossing']], 'constraints': b['constraints'], 'rcc': b.get('rcc', True),
                 'mode': 'weight', 'alignment': 'equal preamble'}
        out.append({'law': 'L4', 'factors': d['factors'], 'sides': [b, multi], 'tier': tier})
    return out


def items(tier, seed):
    return law_items(tier, seed)


def run_item(item):
    cap = CAP[item['tier']]
    sides = []
    design = None
    for pb in item.get('prime', []):
        try:
            core.quiet(B.build, {'factors': item['factors'], 'block': pb})
        except Exception:
            pass
    for sb in item['sides']:
        spec = {'factors': item['factors'], 'block': sb}
        try:
            objs, block = core.quiet(B.build, spec)
        except Exception as e:
            sides.append(('refused', type(e).__name__, str(e)[:120]))
            continue
        design = design or B.block_design(sb)
        try:
            T = block.trials_per_sample()
        except Exception as e:
            sides.append(('refused', type(e).__name__, str(e)[:120]))
            continue
        exps, e, out = dsw.synth(block, cap + 1, 'sat')
        if e is not None:
            sides.append(('raises', type(e).__name__, str(e)[:120]))
            continue
        if len(exps) > cap:
            return core.skip('more than CAP sequences')
        try:
            tup = dsw.tuples(exps, design)
        except (KeyError, IndexError) as e2:
            sides.append(('malformed', type(e2).__name__, ''))
            continue
        sides.append(('ok', T, Counter(tup)))
    b0 = item['sides'][0]
    sig = {'law': item['law'], 'mode': b0.get('mode') or '-', 'alignment': b0.get('alignment') or '-',
           'cons': '+'.join(sorted(c['c'] for c in b0.get('constraints', []))) or '-'}
    kinds = [s[0] for s in sides]
    if all(k == 'refused' for k in kinds):
        return core.skip('both sides refused')
    if any(k in ('raises', 'malformed') for k in kinds):
        return core.skip('a side raises during synthesis (C08)')
    if len(set(kinds)) > 1:
        return core.bad(core.viol('one_side_cannot_be_built', dict(sig, which=''.join('B' if k == 'ok' else 'R' for k in kinds)),
                                  factors=dsw.brief({'factors': item['factors'], 'block': item['sides'][0]})['factors'], sides=item['sides'],
                                  outcome=[(s[0], s[1], s[2] if s[0] != 'ok' else len(s[2])) for s in sides]), outcome=kinds)
    base = sides[0]
    nt = sum(base[2].values()) >= 2
    n = sum(sum(s[2].values()) for s in sides)
    for i, s in enumerate(sides[1:], 1):
        if s[1] != base[1] or set(s[2]) != set(base[2]) or s[2] != base[2]:
            only0 = sorted(set(base[2]) - set(s[2]))[:1]
            only1 = sorted(set(s[2]) - set(base[2]))[:1]
            return core.bad(core.viol('sides_differ', dict(sig, side=i), factors=dsw.brief({'factors': item['factors'], 'block': item['sides'][0]})['factors'],
                                      sides=item['sides'], T=[base[1], s[1]], n=[sum(base[2].values()), sum(s[2].values())],
                                      only_first=only0, only_other=only1), states=n, transitions=len(sides), nontrivial=nt, outcome=['differ'])
    return core.ok(states=max(1, n), transitions=len(sides), validated=sum(base[2].values()), nontrivial=nt, outcome=[item['law'], base[1]])


def sample_of(item, res):
    return {'law': item['law'], 'sides': item['sides'], 'explored': res.get('outcome')}
