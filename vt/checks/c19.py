"""C19 - a block stays usable and unchanged across library calls.

E3: explicit-state search over call histories on ONE block object.  Alphabet (11 operations): synthesize_trials with
IterateSATGen / RandomGen (2 and 20 requested) / IterateGen / CMSGen, print_experiments, tabulate_experiments, save_experiments_csv,
experiments_to_tuples, experiments_to_dicts, sample_mismatch_experiment (their experiments argument is the most recent
synthesized result, or a result synthesized from a separate fresh block when there is none yet).
Blocks: plain; implied derived factor; hidden weight factor with a rewritten constraint; continuous factor; derived
continuous factors (same-trial, window) with a ContinuousConstraint; Repeat with a preamble; LatinSquare over two
three-level factors (one diagonal segment); hidden weight factor together with a continuous factor.
ALL histories up to the depth bound are executed on a freshly built block each (a state is the history that reaches it);
the canonical state (names of design / act_design / continuous factors, constraint classes, excluded levels, errors, trial
count) is hashed to count distinct states.
Invariant in every state: the canonical state equals the initial one; no call raises; every synthesize_trials call returns
at least one sequence whose discrete part is valid (membership oracle) and whose set of columns equals that of the first
synthesize_trials call of the history.
"""
import itertools
import os
import random
from vt import core, dsw, gen, build as B, ref as R

PROP = 'C19'
RULE = ('8 representative blocks x all histories of length <= 3 (thorough 4) over 11 operations; item = (block, first operation); '
        'states = distinct canonical block states seen, transitions = operations executed; non-trivial = the history contains a synthesis '
        'call after some other call.')
ASSUMPTIONS = ['validity of the discrete part by the reference membership oracle (vt/ref.py); continuous values are C22\'s subject']
BUDGET_S = {'quick': 150, 'thorough': 1200}
DEPTH = {'quick': 3, 'thorough': 4}
OPS = ['synth_sat', 'synth_rnd', 'synth_rnd_many', 'synth_iter', 'synth_cms', 'print', 'tabulate', 'csv', 'tuples', 'dicts', 'mismatch']
MANY = 20
BLOCKS = ['plain', 'implied', 'hidden', 'continuous', 'derived_continuous', 'repeat_preamble', 'latin', 'hidden_continuous']


def make(kind):
    """-> (block, discrete spec, expected column names)"""
    import sweetpea as sp
    A = gen.basic('A', 2); Bf = gen.basic('B', 2)
    fm0 = {'A': A, 'B': Bf}
    if kind == 'plain':
        spec = {'factors': [A, Bf], 'block': gen.cross(['A', 'B'], ['A'], [{'c': 'AtMostKInARow', 'k': 1, 'factor': 'B', 'level': 'b0'}])}
    elif kind == 'implied':
        W = gen.within('W', ['A', 'B'], fm0, gen.same)
        spec = {'factors': [A, Bf, W], 'block': gen.cross(['A', 'B', 'W'], ['A', 'B'], [])}
    elif kind == 'hidden':
        Aw = gen.basic('A', 2, [2, 1])
        spec = {'factors': [Aw, Bf], 'block': gen.cross(['A', 'B'], ['B'], [{'c': 'AtMostKInARow', 'k': 1, 'factor': 'A', 'level': 'a1'}])}
    elif kind == 'latin':
        # one diagonal segment per sequence, so a diagonal counter kept between calls would show at once
        A3 = gen.basic('A', 3); B3 = gen.basic('B', 3)
        spec = {'factors': [A3, B3], 'block': gen.cross(['A', 'B'], ['A'], [{'c': 'LatinSquare', 'factors': ['A', 'B']}])}
    elif kind == 'repeat_preamble':
        TA = gen.window('TA', ['A'], fm0, 2, gen.same, kind='transition', start=1)
        spec = {'factors': [A, Bf, TA], 'block': {'op': 'repeat', 'block': gen.cross(['A', 'B', 'TA'], ['TA'], []),
                                                  'constraints': [{'c': 'MinimumTrials', 'k': 5}]}}
    else:
        spec = {'factors': [A, Bf], 'block': gen.cross(['A', 'B'], ['A'], [])}
    if kind == 'hidden_continuous':
        # a weighted factor outside the crossing (internal weight factor) together with a continuous factor
        Aw = gen.basic('A', 2, [2, 1])
        spec = {'factors': [Aw, Bf], 'block': gen.cross(['A', 'B'], ['B'], [])}
        objs = B.build_factors(spec)
        X = sp.ContinuousFactor('X', distribution=sp.UniformDistribution(0.0, 1.0))
        return sp.CrossBlock([objs['A'], objs['B'], X], [objs['B']], []), spec, ['A', 'B', 'X']
    if kind in ('continuous', 'derived_continuous'):
        objs = B.build_factors(spec)
        X = sp.ContinuousFactor('X', distribution=sp.UniformDistribution(0.0, 1.0))
        design = [objs['A'], objs['B'], X]
        cons = []
        cols = ['A', 'B', 'X']
        if kind == 'derived_continuous':
            Y = sp.ContinuousFactor('Y', distribution=sp.CustomDistribution(lambda x: x + 1.0, [X]))
            Z = sp.ContinuousFactor('Z', distribution=sp.CustomDistribution(lambda w: 0.0 if w is None or w[0] != w[0] else w[0] + w[-1],
                                                               [sp.ContinuousFactorWindow([X], 2)]))
            design += [Y, Z]
            from sweetpea._internal.constraint import ContinuousConstraint
            cons = [ContinuousConstraint([X], lambda x: x > 0.05)]
            Lf = sp.ContinuousFactor('L', distribution=sp.CustomDistribution(lambda a, b: 10.0 * (a == 'a1') + 1.0 * (b == 'b1'),
                                                                            [objs['A'], objs['B']]))
            design += [Lf]
            cols += ['Y', 'Z', 'L']
        block = sp.CrossBlock(design, [objs['A']], cons)
        return block, spec, cols
    objs, block = B.build(spec)
    return block, spec, B.block_design(spec['block'])


def canon_state(block):
    def nm(x):
        n = getattr(x, 'name', x)
        return str(getattr(n, 'name', n))
    return {
        'design': [nm(f) for f in block.design],
        'act_design': [nm(f) for f in getattr(block, 'act_design', [])],
        'continuous': [nm(f) for f in getattr(block, 'continuous_factors', [])],
        'constraints': sorted(type(c).__name__ for c in block.constraints),
        'exclude': sorted(nm(f) + ':' + nm(l) for f, l in getattr(block, 'exclude', [])),
        'errors': sorted(getattr(block, 'errors', [])),
        'T': block.trials_per_sample(),
        'orig_design': [nm(f) for f in getattr(block, 'orig_design', [])],
    }


_SEED = {}


def seed_experiments(kind):
    if kind not in _SEED:
        import sweetpea as sp
        block, spec, cols = make(kind)
        random.seed(1)
        _SEED[kind] = core.quiet(sp.synthesize_trials, block, 2, sp.IterateSATGen)
    return [dict((k, list(v)) for k, v in e.items()) for e in _SEED[kind]]


_FRESHN = {}


def fresh_count(kind, op):
    """how many sequences the same call returns on a block nothing else has touched"""
    if (kind, op) not in _FRESHN:
        import numpy
        random.seed(7); numpy.random.seed(7)
        block, _, _ = make(kind)
        w = {'block': block, 'last': None, 'kind': kind}
        obs = apply_op(w, op)
        _FRESHN[(kind, op)] = len(obs[1]) if obs[0] == 'synth' else None
    return _FRESHN[(kind, op)]


def apply_op(world, op):
    """-> observation ('ok', ...) | ('raises', exc name, message)"""
    import sweetpea as sp
    block = world['block']
    exps = world['last'] if world['last'] else seed_experiments(world['kind'])
    try:
        if op.startswith('synth_'):
            g = {'synth_sat': sp.IterateSATGen, 'synth_rnd': sp.RandomGen, 'synth_rnd_many': sp.RandomGen, 'synth_iter': sp.IterateGen,
                 'synth_cms': sp.CMSGen}[op]
            res = core.quiet(sp.synthesize_trials, block, MANY if op == 'synth_rnd_many' else 2, g)
            world['last'] = res
            return ('synth', res)
        if op == 'print':
            core.quiet(sp.print_experiments, block, exps)
        elif op == 'tabulate':
            core.quiet(sp.tabulate_experiments, block, exps)
        elif op == 'csv':
            core.quiet(sp.save_experiments_csv, block, exps, 'c19_%d' % os.getpid())
            for fn in os.listdir('.'):
                if fn.startswith('c19_%d' % os.getpid()):
                    os.unlink(fn)
        elif op == 'tuples':
            core.quiet(sp.experiments_to_tuples, block, exps)
        elif op == 'dicts':
            core.quiet(sp.experiments_to_dicts, block, exps)
        elif op == 'mismatch':
            core.quiet(sp.sample_mismatch_experiment, block, exps[0])
        return ('ok',)
    except Exception as e:
        return ('raises', type(e).__name__, str(e)[:160])


def items(tier, seed):
    return [{'kind': k, 'first': op, 'depth': DEPTH[tier], 'tier': tier} for k in BLOCKS for op in OPS]


def run_item(item):
    import numpy
    kind = item['kind']
    block0, spec, cols = make(kind)
    init = canon_state(block0)
    checker = R.Checker(spec)
    dnames = checker.design
    viols = []
    seen_states = set()
    transitions = 0
    hists = 0
    seen_sig = set()
    nontriv = 0
    for depth in range(1, item['depth'] + 1):
        for rest in itertools.product(OPS, repeat=depth - 1):
            hist = (item['first'],) + rest
            hists += 1
            random.seed(7)
            numpy.random.seed(7)
            block, _, _ = make(kind)
            world = {'block': block, 'last': None, 'kind': kind}
            first_cols = None
            if any(o.startswith('synth') for o in hist[1:]):
                nontriv += 1
            for pos, op in enumerate(hist):
                obs = apply_op(world, op)
                transitions += 1
                if pos < len(hist) - 1:
                    continue          # prefixes are checked as their own (shorter) histories
                sig = {'block': kind, 'op': op, 'after': hist[pos - 1] if pos else '-'}
                bad = None
                if obs[0] == 'raises':
                    bad = core.viol('call_raises', dict(sig, exc=obs[1]), history=list(hist), message=obs[2])
                elif obs[0] == 'synth':
                    res = obs[1]
                    want_n = fresh_count(kind, op)
                    if not res:
                        bad = core.viol('synthesis_returns_nothing', sig, history=list(hist))
                    elif len(res) != want_n:
                        bad = core.viol('fewer_sequences_than_on_a_fresh_block', sig, history=list(hist), returned=len(res), fresh=want_n)
                    elif 'L' in cols and any(list(e['L']) != [10.0 * (a == 'a1') + 1.0 * (b == 'b1') for a, b in zip(e['A'], e['B'])] for e in res):
                        bad = core.viol('continuous_values_do_not_match_their_inputs', sig, history=list(hist),
                                        example=[[list(e['A']), list(e['B']), list(e['L'])] for e in res][:1])
                    else:
                        keys = sorted(str(k) for k in res[0].keys())
                        if keys != sorted(cols):
                            bad = core.viol('columns_differ', sig, history=list(hist), columns=keys, expected=sorted(cols))
                        else:
                            try:
                                tup = dsw.tuples([{k: v for k, v in e.items() if k in dnames} for e in res], dnames)
                                inv = [s for s in tup if not checker.valid(s)]
                                if inv:
                                    bad = core.viol('invalid_sequence_after_history', sig, history=list(hist), example=inv[0])
                            except (KeyError, IndexError) as e2:
                                bad = core.viol('columns_differ', dict(sig, exc=type(e2).__name__), history=list(hist), message=str(e2)[:100])
                if bad is None:
                    try:
                        st = canon_state(world['block'])
                    except Exception as e:
                        st = {'raises': type(e).__name__}
                    seen_states.add(core.canon(st))
                    if st != init:
                        diff = sorted(k for k in set(st) | set(init) if st.get(k) != init.get(k))
                        bad = core.viol('block_state_changed', dict(sig, fields='+'.join(diff)), history=list(hist),
                                        before={k: init.get(k) for k in diff}, after={k: st.get(k) for k in diff})
                if bad is not None:
                    k = core.canon(bad['sig'])
                    if k not in seen_sig:
                        seen_sig.add(k)
                        viols.append(bad)
    outcome = [kind, item['first'], hists, len(seen_states)]
    if viols:
        return core.bad(viols[:10], states=max(1, len(seen_states)), transitions=transitions, nontrivial=nontriv > 0, outcome=outcome)
    return core.ok(states=max(1, len(seen_states)), transitions=transitions, validated=hists, nontrivial=nontriv > 0, outcome=outcome)


def sample_of(item, res):
    return {'block': item['kind'], 'first_operation': item['first'], 'histories_executed': res['outcome'][2], 'distinct_states': res['outcome'][3],
            'example_history': [item['first'], 'print', 'synth_sat']}
