"""C28 - ILP (OPB) export accepts the same assignments as the SAT encoding.

E4: clause sets x request lists x all assignments of the formula's variables. Three-way agreement:
independent pseudo-Boolean evaluation of the written OPB text  ==  arithmetic meaning (clauses true and count REL k)
==  satisfiability of combine_cnf_with_requests under the assignment. sample_ilp.update_file: the appended constraint
is violated by exactly the previous solution (all assignments of the support checked). Gurobi is absent; only the
text is checked, which is what the property is about.
"""
import itertools
import os
from pathlib import Path
from vt import core, sat

PROP = 'C28'
RULE = ('clause sets (<=2 clauses over vars 1..3, incl. empty; plus every single clause of 2-3 literals that repeats a variable) x single requests (EQ/LT/GT x k in 0..|S|+1 x every non-empty S of {1,2,3}), '
        'plus request pairs on clause sets of size <=1 (quick: empty clause set); all 8 assignments each; plus update_file for every '
        'previous solution over supports 1..3. Non-trivial = both accepted and rejected assignments exist.')
ASSUMPTIONS = ['OPB semantics: sum of coefficient*literal-value compared with the right-hand side; every constraint ends with ;',
               'pycryptosat as SAT oracle for the SAT side']
BUDGET_S = {'quick': 120, 'thorough': 900}
CHUNK = 300
VARS = [1, 2, 3]


def clause_sets():
    from vt.checks.c27 import all_clauses
    cl = all_clauses(3, 3)
    return [[]] + [[c] for c in cl] + [list(p) for p in itertools.combinations(cl, 2)]


def single_requests():
    out = []
    for r in range(1, 4):
        for s in itertools.combinations(VARS, r):
            for k in range(0, r + 2):
                for rel in ('EQ', 'LT', 'GT'):
                    out.append([rel, k, list(s)])
    return out


_W = {}


def work(tier):
    if tier in _W:
        return _W[tier]
    cs = clause_sets()
    sr = single_requests()
    w = []
    for c in cs:
        w.append((c, []))
        for r in sr:
            w.append((c, [r]))
    # clauses that name a variable more than once (a repeated literal, or a literal and its complement): legal CNF, same meaning
    lits = [1, -1, 2, -2, 3, -3]
    odd = [list(c) for r in (2, 3) for c in itertools.product(lits, repeat=r) if len({abs(l) for l in c}) < r]
    full = [r for r in sr if r[2] == VARS]
    for c in odd:
        w.append(([c], []))
        for r in full:
            w.append(([c], [r]))
    pair_sets = cs[:1] if tier == 'quick' else cs[:27]
    for c in pair_sets:
        for r1, r2 in itertools.product(sr, repeat=2):
            w.append((c, [r1, r2]))
    _W[tier] = w
    return w


def items(tier, seed):
    n = len(work(tier))
    out = [{'tier': tier, 'lo': lo, 'hi': min(n, lo + CHUNK)} for lo in range(0, n, CHUNK)]
    out.append({'update_file': True})
    return out


def parse_opb(text):
    """-> list of (terms [(coef, var)], op, rhs). Constraints are ';'-terminated."""
    cons = []
    for chunk in text.replace('\n', ' ').split(';'):
        toks = chunk.split()
        if not toks:
            continue
        terms = []
        i = 0
        while i < len(toks) and toks[i] not in ('>=', '<=', '='):
            coef = int(toks[i]); var = toks[i + 1]
            if not var.startswith('v'):
                raise ValueError('bad term %r' % toks[i:i + 2])
            terms.append((coef, int(var[1:])))
            i += 2
        if i != len(toks) - 2:
            raise ValueError('bad constraint %r' % chunk)
        cons.append((terms, toks[i], int(toks[i + 1])))
    return cons


def eval_opb(cons, a):
    for terms, op, rhs in cons:
        v = sum(c * (1 if a[x] else 0) for c, x in terms)
        if op == '>=' and not v >= rhs: return False
        if op == '<=' and not v <= rhs: return False
        if op == '=' and not v == rhs: return False
    return True


def rel_holds(rel, count, k):
    return {'EQ': count == k, 'LT': count < k, 'GT': count > k}[rel]


def run_item(item):
    import importlib
    from sweetpea._internal.core.cnf import CNF, Var
    utility = importlib.import_module('sweetpea._internal.core.generate.utility')
    ilp = importlib.import_module('sweetpea._internal.core.generate.sample_ilp')
    path = Path('c28_%d.opb' % os.getpid())
    viols = []
    states = transitions = 0
    nt = 0
    if item.get('update_file'):
        for support in (1, 2, 3):
            sv = list(range(1, support + 1))
            for bits in itertools.product((False, True), repeat=support):
                prev = [v if b else -v for v, b in zip(sv, bits)]
                if path.exists(): path.unlink()
                path.write_text('+1 v1 >= 0 ;')
                ilp.update_file(path, list(prev))
                cons = parse_opb(path.read_text())
                rejected = []
                for b2 in itertools.product((False, True), repeat=support):
                    states += 1
                    if not eval_opb(cons, dict(zip(sv, b2))):
                        rejected.append([v if b else -v for v, b in zip(sv, b2)])
                transitions += 1
                if rejected != [prev]:
                    viols.append(core.viol('ilp_blocking_constraint_wrong', {}, previous=prev, rejected=rejected, text=path.read_text()))
        if path.exists(): path.unlink()
        if viols:
            return core.bad(viols[:3], states, transitions, 0, True, ['update_file'])
        return core.ok(states, transitions, 0, True, ['update_file'], n_nontrivial=1)
    for clauses, reqs in work(item['tier'])[item['lo']:item['hi']]:
        sig = {'rels': '+'.join(r[0] for r in reqs), 'nclauses': len(clauses)}
        if len(reqs) == 1:
            sig['k_vs_n'] = 'k<n' if reqs[0][1] < len(reqs[0][2]) else ('k==n' if reqs[0][1] == len(reqs[0][2]) else 'k>n')
        cnf = CNF([list(c) for c in clauses]) if clauses else CNF()
        greqs = [utility.GenerationRequest(utility.AssertionType[r], k, [Var(v) for v in vs]) for r, k, vs in reqs]
        if path.exists():
            path.unlink()
        try:
            core.quiet(utility.combine_and_save_opb, path, cnf, 3, greqs)
            cons = parse_opb(path.read_text())
        except Exception as e:
            viols.append(core.viol('opb_exception', dict(sig, exc=type(e).__name__), clauses=clauses, requests=reqs, message=str(e)[:200]))
            continue
        satcnf = sat.cnf_to_lists(utility.combine_cnf_with_requests(cnf, 3, 3, greqs))
        acc = rej = 0
        for bits in itertools.product((False, True), repeat=3):
            a = dict(zip(VARS, bits))
            states += 1
            arith = all(any((a[abs(l)] if l > 0 else not a[abs(l)]) for l in c) for c in clauses) and \
                all(rel_holds(r, sum(1 for v in vs if a[v]), k) for r, k, vs in reqs)
            opb = eval_opb(cons, a)
            s = len(sat.all_models(satcnf, over=[], assumptions=[v if a[v] else -v for v in VARS])) > 0
            transitions += 2
            if arith: acc += 1
            else: rej += 1
            if opb != arith or s != arith:
                kind = 'opb_differs_from_meaning' if opb != arith else 'sat_differs_from_meaning'
                viols.append(core.viol(kind, sig, clauses=clauses, requests=reqs, assignment=[v if a[v] else -v for v in VARS],
                                       meaning=arith, opb=opb, sat=s, text=path.read_text()))
                break
        if acc and rej:
            nt += 1
    if path.exists():
        path.unlink()
    outcome = [item['lo'], states, nt]
    if viols:
        first = {}
        for v in viols:
            first.setdefault(core.canon(v['sig']), v)
        return core.bad(list(first.values())[:8], states, transitions, 0, nt > 0, outcome, n_nontrivial=nt, n_viol=len(viols))
    return core.ok(states, transitions, 0, nt > 0, outcome, n_nontrivial=nt)


def finalize(items_, results, tier):
    return {'exports_nontrivial': sum(r.get('n_nontrivial', 0) for r in results),
            'exports': sum(it['hi'] - it['lo'] for it in items_ if 'lo' in it)}


def sample_of(item, res):
    if item.get('update_file'):
        return item
    w = work(item['tier'])
    return {'chunk': item, 'first': {'clauses': w[item['lo']][0], 'requests': w[item['lo']][1]},
            'last': {'clauses': w[item['hi'] - 1][0], 'requests': w[item['hi'] - 1][1]}}
