"""C22 - continuous factors respect their constraints, inputs and windows.

E1 x E2: bounded designs with continuous factors - a base factor X (built-in UniformDistribution through the
distribution.random seam, or a CustomDistribution), a same-trial derived factor Y = f(A, X) depending on a discrete and a
continuous factor, a ContinuousFactorWindow factor Z over X (width 2-3, stride 1-2, start None / 0 / late), a cumulative
CustomDistribution W, and 0-2 ContinuousConstraints - x every sequence of draws over a 3-value menu within a deviation bound
(menu ordered so that the default draw satisfies the constraints; a non-default draw may make an attempt fail, which
exercises the resampling loop; horizon on choice points per execution).
Oracle per returned sequence: one value per trial for every continuous factor; every constraint predicate true at every
trial; X equals the draws of the accepted attempt; Y recomputed from the SAME returned row; Z recomputed from the preceding
width-1 trials of the same returned X column with NaN exactly where i < start, off stride, or before trial 0; W is the running
sum of its draws restarted for every sequence; the discrete part is valid (membership oracle).
"""
import itertools
import math
from vt import core, dsw, gen, build as B, ref as R, explore, seams

PROP = 'C22'
RULE = ('3 discrete blocks x window geometry (width 2-3 x stride 1-2 x start None/0/late) x constraint sets (none, X>=2, X>=2 and Y rule) x base '
        'distribution (built-in uniform via the random seam / custom) x requested samples 1-2; per design every draw schedule with <= D '
        'non-default draws (D = 2 quick, 3 thorough); states = executions, transitions = draws; non-trivial = some execution had a rejected '
        'attempt (resampling exercised) and the window has NaN and non-NaN trials.')
ASSUMPTIONS = ['discrete validity by the reference membership oracle', 'values of continuous factors may be any Python value (tuples are used to make inputs observable)']
BUDGET_S = {'quick': 120, 'thorough': 900}
DEV = {'quick': 2, 'thorough': 3}
MENU = [3.0, 2.0, 1.0]


def items(tier, seed):
    out = []
    blocks = [('A', None), ('AB', None), ('A', 3)]
    for (cr, mt), width, stride, start, cons, base, n in itertools.product(
            blocks, (2, 3), (1, 2), ('none', 'zero', 'late'), (0, 1, 2), ('uniform', 'custom'), (1, 2)):
        if tier == 'quick' and (width + stride + cons + n + (base == 'custom') + len(cr)) % 2:
            continue
        out.append({'crossing': cr, 'mt': mt, 'width': width, 'stride': stride, 'start': start, 'cons': cons, 'base': base, 'n': n, 'tier': tier})
    return out


def nan(x):
    return isinstance(x, float) and x != x


def build(item, script, draws):
    import sweetpea as sp
    from sweetpea._internal.constraint import ContinuousConstraint
    A = gen.basic('A', 2); Bf = gen.basic('B', 2)
    cons_spec = [{'c': 'MinimumTrials', 'k': item['mt']}] if item['mt'] else []
    spec = {'factors': [A, Bf], 'block': gen.cross(['A', 'B'], list(item['crossing']), cons_spec)}
    objs = B.build_factors(spec)

    def draw(tag):
        v = MENU[script.choose(len(MENU))]
        draws.append((tag, v))
        return v
    if item['base'] == 'uniform':
        X = sp.ContinuousFactor('X', distribution=sp.UniformDistribution(0.0, 4.0))
    else:
        X = sp.ContinuousFactor('X', distribution=sp.CustomDistribution(lambda: draw('X')))
    Y = sp.ContinuousFactor('Y', distribution=sp.CustomDistribution(lambda a, x: ('y', a, x), [objs['A'], X]))
    w = item['width']
    start = {'none': None, 'zero': 0, 'late': w}[item['start']]

    def zf(win):
        return ('z', tuple((k, None if nan(win[k]) else win[k]) for k in sorted(win)))
    Z = sp.ContinuousFactor('Z', distribution=sp.CustomDistribution(zf, [sp.ContinuousFactorWindow([X], w, item['stride'], start)]))
    W = sp.ContinuousFactor('W', distribution=sp.CustomDistribution(lambda: draw('W'), cumulative=True))
    cons = []
    if item['cons'] >= 1:
        cons.append(ContinuousConstraint([X], lambda x: x >= 2.0))
    if item['cons'] >= 2:
        # declared in the REVERSE of the design order, with an asymmetric predicate: the running sum w must be at least x
        cons.append(ContinuousConstraint([W, X], lambda wv, x: wv >= x))
    design = [objs['A'], objs['B'], X, Y, Z, W]
    block = sp.CrossBlock(design, [objs[c] for c in item['crossing']], cons + B_constraints(cons_spec, objs))
    return block, spec, start if start is not None else w - 1


def B_constraints(cons_spec, objs):
    return [B.build_constraint(c, objs) for c in cons_spec]


class ScriptedRandomModule:
    """stands in for the `random` module inside sweetpea._internal.distribution"""
    def __init__(self, script, draws):
        self.script = script
        self.draws = draws

    def uniform(self, a, b):
        v = MENU[self.script.choose(len(MENU))]
        self.draws.append(('X', v))
        return v

    def gauss(self, mu, sigma):
        return self.uniform(0, 0)

    def expovariate(self, r):
        return self.uniform(0, 0)

    def lognormvariate(self, m, s):
        return self.uniform(0, 0)


def run_item(item):
    import sweetpea as sp
    import sweetpea._internal.distribution as D
    checker = None
    viols = []
    info = {'rejected_attempts': 0, 'execs': 0}
    seen_sig = set()

    def run(script):
        nonlocal checker
        draws = []
        block, spec, eff_start = build(item, script, draws)
        if checker is None:
            checker = R.Checker(spec)
        with seams.rebound(D, 'random', ScriptedRandomModule(script, draws)):
            try:
                res = core.quiet(sp.synthesize_trials, block, item['n'], sp.IterateSATGen)
            except explore.Horizon:
                raise
            except Exception as e:
                return ('raises', type(e).__name__, str(e)[:160])
        return ('ok', res, draws, eff_start, block.trials_per_sample())

    def judge(script, out):
        info['execs'] += 1
        sig = {'width': item['width'], 'stride': item['stride'], 'start': item['start'], 'cons': item['cons'], 'base': item['base']}

        def add(kind, **d):
            k = kind
            if k not in seen_sig:
                seen_sig.add(k)
                viols.append(core.viol(kind, sig, item=item, schedule=script.choices(), **d))
        if out[0] == 'horizon':
            return
        if out[0] == 'raises':
            add('synthesis_raises', exc=out[1], message=out[2])
            return
        _, res, draws, eff_start, T = out
        if len(res) != item['n']:
            add('wrong_number_of_sequences', got=len(res))
            return
        xd = [v for t, v in draws if t == 'X']
        wd = [v for t, v in draws if t == 'W']
        attempts = len(xd) // T if T else 0
        if attempts > item['n']:
            info['rejected_attempts'] += attempts - item['n']
        # model of the resampling loop: attempts are made one after the other; the first attempt that satisfies every predicate at
        # every trial is the accepted one of the current experiment
        def satisfied(xs, ws):
            if item['cons'] >= 1 and any(not (x >= 2.0) for x in xs):
                return False
            if item['cons'] >= 2 and any(not (wv >= x) for x, wv in zip(xs, ws)):
                return False
            return True
        a = 0
        for j, e in enumerate(res):
            for nm in ('X', 'Y', 'Z', 'W'):
                if nm not in e or len(e[nm]) != T:
                    add('wrong_column_length', factor=nm, got=len(e.get(nm, [])), T=T)
                    return
            X, Y, Z, Wv = e['X'], e['Y'], e['Z'], e['W']
            accepted = None
            while (a + 1) * T <= len(xd) and (a + 1) * T <= len(wd):
                xs = xd[a * T:(a + 1) * T]
                ws = [sum(wd[a * T:a * T + i + 1]) for i in range(T)]
                a += 1
                if satisfied(xs, ws):
                    accepted = (xs, ws)
                    break
            if accepted is None:
                add('no_accepted_attempt_in_the_draws', returned=list(X), x_draws=xd, w_draws=wd)
                return
            if list(X) != accepted[0]:
                add('base_values_are_not_the_draws', returned=list(X), accepted_attempt=accepted[0])
            if list(Wv) != accepted[1]:
                add('cumulative_sum_wrong', returned=list(Wv), accepted_attempt=accepted[1])
            if item['cons'] >= 1 and any(not (x >= 2.0) for x in X):
                add('constraint_violated', values=list(X))
            if item['cons'] >= 2 and any(not (wv >= x) for x, wv in zip(X, Wv)):
                add('constraint_violated', values=[list(X), list(Wv)])
            if list(Y) != [('y', e['A'][i], X[i]) for i in range(T)]:
                add('same_trial_dependency_wrong', returned=list(Y)[:4], A=e['A'], X=list(X))
            w, st = item['width'], item['stride']
            expZ = []
            for i in range(T):
                if i < eff_start or (st > 1 and (i - eff_start) % st != 0):
                    win = {-k: None for k in range(w)}
                else:
                    win = {-k: (X[i - k] if i - k >= 0 else None) for k in range(w)}
                expZ.append(('z', tuple((k, win[k]) for k in sorted(win))))
            if list(Z) != expZ:
                add('window_values_wrong', returned=list(Z), expected=expZ, X=list(X))
            seq = tuple(tuple(e[n][i] for n in checker.design) for i in range(T))
            if not checker.valid(seq):
                add('discrete_part_invalid', sequence=seq)
    ex = explore.explore_choices(run, bound=DEV[item['tier']], horizon=120, on_result=judge, cap=6000)
    nt = info['rejected_attempts'] > 0 or item['cons'] == 0
    outcome = [ex.executions, info['rejected_attempts'], ex.horizon_hits]
    if viols:
        return core.bad(viols[:8], states=ex.executions, transitions=max(1, ex.choice_points), nontrivial=nt, outcome=outcome)
    return core.ok(states=ex.executions, transitions=max(1, ex.choice_points), validated=ex.executions, nontrivial=nt, outcome=outcome,
                   bound=DEV[item['tier']], complete=ex.complete)


def sample_of(item, res):
    return {'design': item, 'executions': res['outcome'][0], 'rejected_attempts_seen': res['outcome'][1]}
