"""C23 - weighted levels behave as documented.

E1, metamorphic (no reading of the documentation's arithmetic needed): every design with weighted levels of basic
factors is compared with its COPY-EXPANDED TWIN, in which a level of weight w is replaced by w separately named levels of
weight 1 (derived-factor tables and Exclude constraints duplicated accordingly).  Both are built from fresh objects and
exhausted (IterateSATGen; RandomGen where its candidate space is small); the twin's sequences are mapped back to the
original names.
  * factor in every crossing:     set(weighted) == set(twin mapped back), and the weighted result contains no sequence twice
                                  (the w occurrences are not distinct solutions);
  * factor not in every crossing: multiset(weighted) == multiset(twin mapped back)  (w separately named copies, reported under
                                  the original name) - including factors that are in some but not all crossings, as the
                                  property states.
A constructor or sampler that raises on the weighted design but not on the twin is a violation.  The weighted result is
also compared with the reference multiset.
"""
import copy
import itertools
from collections import Counter
from vt import core, dsw, gen, build as B, ref as R

PROP = 'C23'
RULE = ('weighted designs of strata S2 and S2s whose constraints do not name a weighted level, plus multi-crossing designs with a weighted '
        'factor in some but not all crossings (quick: stratified core); both twins exhausted; states = sequences compared; '
        'non-trivial = >= 2 sequences and the twin has strictly more distinct sequences before mapping back.')
ASSUMPTIONS = ['copy expansion is the property\'s own description of weights on factors outside the crossing',
               'reference model vt/ref.py for the additional comparison']
BUDGET_S = {'quick': 90, 'thorough': 400}
CAP = {'quick': 500, 'thorough': 1500}


def weighted_basic(spec):
    return [f for f in spec['factors'] if 'deps' not in f and any(w > 1 for _, w in f['levels'])]


def eligible(spec):
    wf = {f['name'] for f in weighted_basic(spec)}
    if not wf:
        return False
    if any('deps' in f and any(w > 1 for _, w in f['levels']) for f in spec['factors']):
        return False          # a weighted derived level has no copy-expanded twin (copies would overlap)
    ok = True

    def walk(x):
        nonlocal ok
        for c in x.get('constraints', []):
            if c.get('factor') in wf and c['c'] != 'Exclude':
                ok = False    # a constraint naming a weighted level has no single-level counterpart in the twin
            if c['c'] == 'LatinSquare' and set(c['factors']) & wf:
                ok = False
        for k in ('block', 'outer', 'inner'):
            if k in x:
                walk(x[k])
        for y in x.get('blocks', []):
            walk(y)
    walk(spec['block'])
    return ok


def twin_of(spec, only=None):
    """only: names of the weighted factors to expand (None = all)"""
    spec = copy.deepcopy(spec)
    copies = {}      # factor -> level -> [copy names]
    for f in spec['factors']:
        if 'deps' not in f and any(w > 1 for _, w in f['levels']) and (only is None or f['name'] in only):
            m = {}
            new = []
            for l, w in f['levels']:
                m[l] = ['%s#%d' % (l, i) for i in range(w)] if w > 1 else [l]
                new += [[x, 1] for x in m[l]]
            f['levels'] = new
            copies[f['name']] = m
    for f in spec['factors']:
        if 'deps' in f:
            t = {}
            width = f['width']
            for key, lv in f['table'].items():
                parts = key.split('|')
                opts = []
                for i, p in enumerate(parts):
                    dep = f['deps'][i // width]
                    opts.append(copies.get(dep, {}).get(p, [p]))
                for combo in itertools.product(*opts):
                    t['|'.join(combo)] = lv
            f['table'] = t

    def walk(x):
        cs = []
        for c in x.get('constraints', []):
            if c['c'] == 'Exclude' and c['factor'] in copies:
                for nm in copies[c['factor']][c['level']]:
                    cs.append(dict(c, level=nm))
            else:
                cs.append(c)
        if 'constraints' in x:
            x['constraints'] = cs
        for k in ('block', 'outer', 'inner'):
            if k in x:
                walk(x[k])
        for y in x.get('blocks', []):
            walk(y)
    walk(spec['block'])
    return spec


def crossing_status(spec):
    """factor name -> 'all' | 'some' | 'none'"""
    crossings = []

    def walk(x):
        if x['op'] == 'cross':
            crossings.append(x['crossing'])
        elif x['op'] == 'multi':
            crossings.extend(x['crossings'])
        for k in ('block', 'outer', 'inner'):
            if k in x:
                walk(x[k])
        for y in x.get('blocks', []):
            walk(y)
    walk(spec['block'])
    out = {}
    for f in weighted_basic(spec):
        n = sum(1 for c in crossings if f['name'] in c)
        out[f['name']] = 'all' if crossings and n == len(crossings) else ('none' if n == 0 else 'some')
    return out


def items(tier, seed):
    out = []
    ds = gen.designs(['S2', 'S2s'], tier, seed, {'S2': 420} if tier == 'quick' else None)
    for d in ds:
        spec = {'factors': d['factors'], 'block': d['block']}
        if eligible(spec):
            out.append({'spec': spec, 'tier': tier, 'seed': seed})
        elif weighted_basic(spec):
            # a constraint names a weighted level: the twin is not semantically comparable, but construction and sampling must
            # not fail internally where the twin's does not, and the weighted design must still match the reference
            out.append({'spec': spec, 'tier': tier, 'seed': seed, 'only_totality': True})
    # weighted factor in some but not all crossings
    A = gen.basic('A', 2, [2, 1]); Bf = gen.basic('B', 2); C = gen.basic('C', 3)
    for factors, crossings in (([A, Bf], [['A'], ['B']]), ([A, Bf, C], [['A'], ['C']]), ([A, Bf, C], [['A', 'B'], ['C']]),
                               ([A, Bf, C], [['C'], ['A']])):
        for mode in ('weight', 'repeat'):
            out.append({'spec': {'factors': factors, 'block': {'op': 'multi', 'design': [f['name'] for f in factors], 'crossings': crossings,
                                                               'constraints': [], 'rcc': True, 'mode': mode, 'alignment': 'equal preamble'}},
                        'tier': tier, 'seed': seed})
    return out


def unmap(seq):
    return tuple(tuple(v.split('#')[0] for v in tr) for tr in seq)


def run_item(item):
    spec = item['spec']
    status = crossing_status(spec)
    kind = 'some' if 'some' in status.values() else ('none' if 'none' in status.values() else 'all')
    # all weighted factors fully crossed: expand them all and compare sets; otherwise expand exactly the factors that are not in
    # every crossing (their copies are distinct solutions) and compare multisets
    twin = twin_of(spec) if kind == 'all' else twin_of(spec, only={n for n, st in status.items() if st != 'all'})
    sig = dict(dsw.design_sig(spec), weighted_in=kind)
    cap = CAP[item['tier']]
    res = {}
    design = B.block_design(spec['block'])
    for name, sp_ in (('weighted', spec), ('twin', twin)):
        try:
            objs, block = core.quiet(B.build, sp_)
        except Exception as e:
            res[name] = ('ctor', e)
            continue
        exps, e, out = dsw.synth(block, cap + 1, 'sat')
        if e is not None:
            res[name] = ('raises', e)
            continue
        if len(exps) > cap:
            return core.skip('more than CAP sequences')
        try:
            res[name] = ('ok', dsw.tuples(exps, design))
        except (KeyError, IndexError) as e2:
            res[name] = ('malformed', e2)
    w, t = res['weighted'], res['twin']
    if t[0] != 'ok' and not item.get('only_totality'):
        return core.skip('twin cannot be built/sampled (%s)' % t[0])
    if item.get('only_totality'):
        if w[0] in ('ctor', 'raises') and not isinstance(w[1], (ValueError, RuntimeError)):
            return core.bad(core.viol('weighted_side_fails', dict(sig, how=w[0], exc=type(w[1]).__name__), design=dsw.brief(spec), message=str(w[1])[:200]))
        if w[0] != 'ok':
            return core.skip('weighted design refused')
        wc = Counter(w[1])
        try:
            ref = R.solve(spec, limit=cap)
            if ref.readings and not ref.refused and dsw.match_exact(ref, wc) is None:
                kinds, d = dsw.diff_detail(ref, wc)
                return core.bad(core.viol('weighted_differs_from_reference', dict(sig, diff=kinds), design=dsw.brief(spec), **d))
        except (R.RefOverflow, R.RefUnsupported):
            pass
        return core.ok(states=max(1, sum(wc.values())), transitions=2, validated=sum(wc.values()), nontrivial=len(wc) >= 2, outcome=['totality', len(wc)])
    if w[0] != 'ok':
        return core.bad(core.viol('weighted_side_fails', dict(sig, how=w[0], exc=type(w[1]).__name__), design=dsw.brief(spec), message=str(w[1])[:200]))
    wc = Counter(w[1])
    tc = Counter(unmap(s) for s in t[1])
    viols = []
    nt = len(wc) >= 2 and len(set(t[1])) > len(set(w[1]))
    if kind == 'all':
        if set(wc) != set(tc):
            viols.append(core.viol('set_differs_from_copy_expansion', sig, design=dsw.brief(spec), weighted=len(wc), twin=len(tc),
                                   only_weighted=sorted(set(wc) - set(tc))[:1], only_twin=sorted(set(tc) - set(wc))[:1]))
        if any(n > 1 for n in wc.values()):
            viols.append(core.viol('weighted_occurrences_counted_as_distinct_solutions', sig, design=dsw.brief(spec),
                                   example=[k for k, n in wc.items() if n > 1][:1]))
    else:
        if wc != tc:
            diff = sorted(k for k in set(wc) | set(tc) if wc.get(k, 0) != tc.get(k, 0))
            viols.append(core.viol('multiset_differs_from_copy_expansion', sig, design=dsw.brief(spec), weighted=sum(wc.values()),
                                   twin=sum(tc.values()), example=[diff[0], wc.get(diff[0], 0), tc.get(diff[0], 0)] if diff else None))
    # additionally against the reference
    try:
        ref = R.solve(spec, limit=cap)
        if ref.readings and not ref.refused and dsw.match_exact(ref, wc) is None:
            kinds, d = dsw.diff_detail(ref, wc)
            viols.append(core.viol('weighted_differs_from_reference', dict(sig, diff=kinds), design=dsw.brief(spec), **d))
    except (R.RefOverflow, R.RefUnsupported):
        pass
    n = sum(wc.values()) + sum(tc.values())
    if viols:
        return core.bad(viols, states=max(1, n), transitions=2, nontrivial=nt, outcome=[kind, len(wc)])
    return core.ok(states=max(1, n), transitions=2, validated=sum(wc.values()), nontrivial=nt, outcome=[kind, len(wc), sum(wc.values())])


sample_of = dsw.sample_of
