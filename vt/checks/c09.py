"""C09 - without-replacement samplers return distinct sequences, as many as exist.

E1 x requested counts: for every design and every requested count n in {1, 2, avail-1, avail, avail+1, 2*avail}
(avail = number of distinct solutions = sum of reference multiplicities), IterateSATGen, RandomGen and IterateGen are
called on a freshly built block.  Oracle: len(result) == min(n, avail); every printed sequence appears at most
`multiplicity` times (identical prints only for copies of a weighted level of a factor outside the crossing, as the
Level documentation describes); every returned sequence is valid.
"""
import random
from collections import Counter
from vt import core, dsw

PROP = 'C09'
RULE = ('designs of strata S1, S1x, S2, S4 (quick: stratified core + seed-rotated members) with 1 <= avail <= LIMIT; x 3 strategies x up to 6 '
        'requested counts; states = (design, strategy, n) calls, transitions = sequences returned; non-trivial = avail >= 2.')
ASSUMPTIONS = ['reference model vt/ref.py gives avail and the multiplicities (documented semantics)']
BUDGET_S = {'quick': 60, 'thorough': 300}
STRATA = ['S1', 'S1n', 'S1p', 'S1x', 'S2', 'S2s', 'S4']
QUICK_CAPS = {'S1': 130, 'S1p': 150, 'S1x': 40, 'S2': 110, 'S4': 40}
LIMIT = {'quick': 120, 'thorough': 600}
GENS = ['sat', 'rnd', 'iter']


def items(tier, seed):
    return dsw.design_items(STRATA, tier, seed, QUICK_CAPS, extra={'seed': seed})


def run_item(item):
    from vt import rnd
    c, sk = dsw.setup(item['spec'], item['tier'], ref_limit=LIMIT[item['tier']])
    if sk:
        return sk
    if len(c.ref.readings) != 1:
        return core.skip('several readings')
    valid = c.ref.readings[0]
    avail = sum(valid.values())
    if avail == 0:
        return core.skip('no solutions')
    ns = sorted(set(n for n in (1, 2, avail - 1, avail, avail + 1, 2 * avail) if n >= 1))
    viols = []
    calls = returned = 0
    random.seed(item.get('seed', 0))
    try:
        pk, _ = rnd.possible_keys(c.block)
    except Exception:
        pk = None
    for g in GENS:
        if g == 'rnd' and (pk is None or pk > 3000):
            continue       # exhausting a rejection sampler over a huge candidate space is not feasible (see C06)
        for n in ns:
            if g == 'iter' and pk is not None and pk > 3000 and not getattr(c.block, 'complex_factors_or_constraints', True):
                continue
            block = dsw.rebuild(c)
            exps, e, out = dsw.synth(block, n, g)
            calls += 1
            sig = dict(c.sig, gen=g)
            if e is not None:
                viols.append(core.viol('exception', dict(sig, exc=type(e).__name__), design=dsw.brief(c.spec), n=n, message=str(e)[:200]))
                break
            try:
                tup = dsw.tuples(exps, c.design)
            except (KeyError, IndexError) as e2:
                viols.append(core.viol('malformed_result', dict(sig, exc=type(e2).__name__), design=dsw.brief(c.spec), n=n))
                break
            returned += len(tup)
            rel = 'n<avail' if n < avail else ('n==avail' if n == avail else 'n>avail')
            if len(tup) != min(n, avail):
                viols.append(core.viol('wrong_number_returned', dict(sig, rel=rel), design=dsw.brief(c.spec), requested=n, available=avail,
                                       returned=len(tup)))
                break
            cnt = Counter(tup)
            dup = [s for s, k in cnt.items() if k > valid.get(s, 0)]
            if dup:
                kind = 'invalid_sequence' if any(s not in valid for s in dup) else 'same_solution_twice'
                viols.append(core.viol(kind, dict(sig, rel=rel), design=dsw.brief(c.spec), requested=n, available=avail,
                                       example=[dup[0], cnt[dup[0]], valid.get(dup[0], 0)]))
                break
    nt = avail >= 2
    if viols:
        return core.bad(viols, states=calls, transitions=max(1, returned), nontrivial=nt, outcome=[avail, calls])
    return core.ok(states=max(1, calls), transitions=max(1, returned), validated=returned, nontrivial=nt, outcome=[avail, len(ns)])


sample_of = dsw.sample_of
