"""C25 - Nest holds outer levels fixed over each inner run.

E1 over outer/inner block pairs (stratum S6: outer blocks with one or two factors, Pin; inner blocks with and without
preamble, inner constraints; constraints on the Nest itself; Nest of Nest; Repeat/Merge of Nest):
  * the exhausted IterateSATGen and RandomGen outputs equal the reference set, whose semantics are the documented ones:
    consecutive groups of the inner block's length, one per outer trial; outer crossed factors constant within each group;
    the outer crossing holds over the sequence of groups; inner crossing and inner constraints hold within each group;
  * independently of the reference, every returned sequence is checked structurally (group constancy of every outer factor,
    T == T_outer * T_inner when there is no preamble);
  * associativity: Nest(a, Nest(b, c)) and Nest(Nest(a, b), c) have equal sequence sets and trial counts, for all triples of a
    small block pool.
"""
import itertools
from collections import Counter
from vt import core, dsw, gen, build as B

PROP = 'C25'
RULE = ('all designs of stratum S6 (outer x inner x Nest constraint, nested Nest, Repeat/Merge of Nest) plus all ordered triples of a 5-block pool '
        'for associativity (quick: triples over 4 blocks); states = sequences compared; non-trivial = >= 2 sequences and an inner block of '
        'length >= 2.')
ASSUMPTIONS = ['reference model vt/ref.py for the set comparison; the structural and associativity oracles need no reference']
BUDGET_S = {'quick': 90, 'thorough': 400}
REF_LIMIT = {'quick': 1500, 'thorough': 2500}


def pool(tier):
    O = gen.basic('O', 2); P = gen.basic('P', 2); A = gen.basic('A', 2); C = gen.basic('C', 3); Q = gen.basic('Q', 2)
    ps = [([O], gen.cross(['O'], ['O'])),
          ([P], gen.cross(['P'], ['P'], [{'c': 'Pin', 'index': 0, 'factor': 'P', 'level': 'p0'}])),
          ([A], gen.cross(['A'], ['A'])),
          ([Q, A], gen.cross(['Q', 'A'], ['Q'])) if False else ([Q], gen.cross(['Q'], ['Q'], [{'c': 'AtMostKInARow', 'k': 1, 'factor': 'Q', 'level': 'q0'}]))]
    # a Pin that is not at the first trial (its position must be scaled by every enclosing Nest)
    R2 = gen.basic('R', 2)
    ps.append(([R2], gen.cross(['R'], ['R'], [{'c': 'Pin', 'index': 1, 'factor': 'R', 'level': 'r0'}])))
    if tier == 'thorough':
        ps.append(([C], gen.cross(['C'], ['C'])))
    return ps


def items(tier, seed):
    out = []
    for d in gen.s6(tier):
        out.append({'kind': 'ref', 'spec': {'factors': d['factors'], 'block': d['block']}, 'tier': tier, 'seed': seed})
    ps = pool(tier)
    for (fa, a), (fb, b), (fc, c) in itertools.permutations(ps, 3):
        names = set()
        fs = []
        for f in fa + fb + fc:
            if f['name'] not in names:
                names.add(f['name']); fs.append(f)
        left = {'op': 'nest', 'outer': {'op': 'nest', 'outer': a, 'inner': b, 'constraints': []}, 'inner': c, 'constraints': []}
        right = {'op': 'nest', 'outer': a, 'inner': {'op': 'nest', 'outer': b, 'inner': c, 'constraints': []}, 'constraints': []}
        out.append({'kind': 'assoc', 'factors': fs, 'sides': [left, right], 'tier': tier})
    return out


def outer_factors(b, inner_len_of):
    """-> list of (factor name, group length) for crossed factors of outer blocks (recursively)."""
    res = []

    def length(x):
        if x['op'] == 'cross':
            n = 1
            return None
        return None
    return res


def structural(spec, tup):
    """Independent of the reference: for Nest(outer, inner) every crossed factor of the outer block is constant within
    consecutive groups of len(inner) trials (no-preamble designs only)."""
    b = spec['block']
    if b['op'] != 'nest':
        return None
    fm = {f['name']: f for f in spec['factors']}
    if any('deps' in f and f.get('width', 1) > 1 for f in spec['factors']):
        return None

    def plen(x):
        if x['op'] == 'cross':
            n = 1
            for cn in x['crossing']:
                n *= sum(w for _, w in fm[cn]['levels'])
            mt = max([cc['k'] for cc in x['constraints'] if cc['c'] == 'MinimumTrials'] + [0])
            return max(n, mt)
        if x['op'] == 'nest':
            return plen(x['outer']) * plen(x['inner'])
        return None

    def crossed(x):
        if x['op'] == 'cross':
            return list(x['crossing'])
        if x['op'] == 'nest':
            return crossed(x['outer']) + crossed(x['inner'])
        return []
    L = plen(b['inner'])
    LO = plen(b['outer'])
    if L is None or LO is None:
        return None
    design = B.block_design(b)
    idx = {n: i for i, n in enumerate(design)}
    has_min = any(cc['c'] == 'MinimumTrials' for cc in b.get('constraints', []))
    for s in tup:
        if (len(s) != L * LO and not has_min) or len(s) % L or len(s) < L * LO:
            return 'length %d, expected outer %d x inner %d' % (len(s), LO, L)
        for n in crossed(b['outer']):
            j = idx[n]
            for g in range(0, len(s), L):
                if len(set(s[t][j] for t in range(g, g + L))) != 1:
                    return 'outer factor %s changes inside the group starting at trial %d' % (n, g)
    return None


def run_item(item):
    if item['kind'] == 'assoc':
        return run_assoc(item)
    c, sk = dsw.setup(item['spec'], item['tier'], ref_limit=REF_LIMIT[item['tier']])
    if sk:
        return sk
    viols, states, validated, skipped = dsw.exhaust_vs_ref(c, seed=item.get('seed', 0))
    # structural oracle on the SAT side
    block = dsw.rebuild(c)
    exps, e, out = dsw.synth(block, dsw.ref_size(c.ref) + 20, 'sat')
    if e is None:
        try:
            msg = structural(c.spec, dsw.tuples(exps, c.design))
            if msg:
                viols.append(core.viol('nest_structure_broken', dict(c.sig, gen='sat'), design=dsw.brief(c.spec), message=msg))
        except (KeyError, IndexError):
            pass
    nt = dsw.nontrivial(c.ref)
    if viols:
        return core.bad(viols, states=max(1, states), transitions=3, nontrivial=nt, outcome=[states])
    return core.ok(states=max(1, states), transitions=3, validated=validated, nontrivial=nt, outcome=[states, c.ref.Ts[0], len(skipped)])


def run_assoc(item):
    sides = []
    for sb in item['sides']:
        spec = {'factors': item['factors'], 'block': sb}
        try:
            objs, block = core.quiet(B.build, spec)
            T = block.trials_per_sample()
        except Exception as e:
            sides.append(('refused', type(e).__name__, str(e)[:100]))
            continue
        exps, e, out = dsw.synth(block, 3000, 'sat')
        if e is not None:
            sides.append(('raises', type(e).__name__, str(e)[:100]))
            continue
        if len(exps) >= 3000:
            return core.skip('more than CAP sequences')
        design = sorted(f['name'] for f in item['factors'])
        sides.append(('ok', T, Counter(dsw.tuples(exps, design))))
    sig = {'law': 'associativity'}
    kinds = [s[0] for s in sides]
    if all(k == 'refused' for k in kinds):
        return core.skip('both sides refused')
    if 'raises' in kinds:
        return core.skip('a side raises during synthesis (C08)')
    if len(set(kinds)) > 1:
        return core.bad(core.viol('one_side_cannot_be_built', dict(sig, which=''.join('B' if k == 'ok' else 'R' for k in kinds)), sides=item['sides'],
                                  outcome=[(s[0], s[1]) for s in sides]))
    a, b = sides
    n = sum(a[2].values()) + sum(b[2].values())
    if a[1] != b[1] or a[2] != b[2]:
        return core.bad(core.viol('nesting_not_associative', sig, sides=item['sides'], T=[a[1], b[1]], n=[sum(a[2].values()), sum(b[2].values())],
                                  only_left=sorted(set(a[2]) - set(b[2]))[:1], only_right=sorted(set(b[2]) - set(a[2]))[:1]),
                        states=n, transitions=2, nontrivial=True, outcome=['differ'])
    return core.ok(states=max(1, n), transitions=2, validated=sum(a[2].values()), nontrivial=sum(a[2].values()) >= 2, outcome=['assoc', a[1]])


def sample_of(item, res):
    if item['kind'] == 'assoc':
        return {'law': 'associativity', 'sides': item['sides'], 'explored': res.get('outcome')}
    return dsw.sample_of(item, res)
