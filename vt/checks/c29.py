"""C29 - SMGen either refuses a design or returns valid sequences.

E1 x E2 (+ E3): single- and multi-block designs (strata S1, S1x, S2, S2s, S4, S6 - including every constraint class SMGen does not
implement, MinimumTrials, Repeat/Merge/Nest wrappers) x every schedule of SMGen's random() draws within a deviation bound
of the default (all-zero) schedule (the scripted random() returns a probe whose multiplication reveals the arity of
int(random()*n), so branching is exact), horizon on draws per execution, x timer events (the threading.Timer is replaced
by a recording fake; its handler is fired at no draw / at one scripted draw position, with its exception swallowed exactly
as a timer thread would).
E3: SMGen keeps module-level state, so every ordered pair and triple of a 6-design pool (plain, weighted derived level crossed,
transition crossed, weighted basic, 2x3, direction-sensitive weighted transition) is also run as a call history in one process.
Oracle: the outcome is a refusal (an Exception raised by SMGen's own _cexit, i.e. type(e) is Exception) or every returned
sequence is valid for the design (reference set / membership oracle: documented trial count, crossing with weights,
derived levels, every constraint); any other exception type is an internal failure.
"""
from collections import Counter
from vt import core, dsw, explore, seams

PROP = 'C29'
RULE = ('designs of strata S1, S1d (Transition over a within-trial derived factor), S1x, S2, S2s, S4, S6 (quick: stratified core + seed-rotated members); per design all draw schedules with <= D '
        'non-default draws (D = 1 quick, 2 thorough; capped), horizon 4000 draws, timer fired at draw positions {none, 0, middle}; '
        'states = executions, transitions = draws; non-trivial = SMGen returned sequences (did not refuse).')
ASSUMPTIONS = ['reference model vt/ref.py (set or single-sequence membership oracle)',
               'the timer callback runs in its own thread where an exception only prints a traceback: its only interaction with the search is '
               'when it fires; byte-code-level preemption inside CPython is not modelled']
BUDGET_S = {'quick': 90, 'thorough': 600}
STRATA = ['S1', 'S1d', 'S1n', 'S1p', 'S1x', 'S2', 'S2s', 'S4', 'S6']
QUICK_CAPS = {'S1': 320, 'S1p': 100, 'S1x': 60, 'S2': 200, 'S4': 60, 'S6': 30}
DEV = {'quick': 1, 'thorough': 2}
CAP = {'quick': 150, 'thorough': 3000}


def history_pool():
    from vt import gen
    A = gen.basic('A', 2); Bf = gen.basic('B', 2); C = gen.basic('C', 3); Aw = gen.basic('A', 2, [2, 1])
    fm0 = {'A': A, 'B': Bf}
    Ww = gen.within('W', ['A', 'B'], fm0, gen.same, weights=[2, 1])
    TA = gen.window('TA', ['A'], fm0, 2, gen.same, kind='transition', start=1)
    TX = gen.window('TX', ['A'], fm0, 2, lambda k: 0 if (k[0][-1] == '0' and k[1][-1] == '1') else 1, kind='transition', start=1, weights=[1, 2])
    return [
        {'factors': [A, Bf], 'block': gen.cross(['A', 'B'], ['A', 'B'])},
        {'factors': [A, Bf, Ww], 'block': gen.cross(['A', 'B', 'W'], ['B', 'W'])},
        {'factors': [A, Bf, TA], 'block': gen.cross(['A', 'B', 'TA'], ['TA'])},
        {'factors': [Aw, Bf], 'block': gen.cross(['A', 'B'], ['A'])},
        {'factors': [A, Bf, C], 'block': gen.cross(['A', 'B', 'C'], ['A', 'C'])},
        {'factors': [A, Bf, TX], 'block': gen.cross(['A', 'B', 'TX'], ['B', 'TX'])},
    ]


def items(tier, seed):
    import itertools
    out = dsw.design_items(STRATA, tier, seed, QUICK_CAPS)
    n = len(history_pool())
    # E3: call histories in ONE process (SMGen keeps module-level state between calls): all ordered pairs, and all triples
    for h in itertools.product(range(n), repeat=2):
        out.append({'kind': 'history', 'history': list(h), 'tier': tier})
    for h in itertools.product(range(n), repeat=3):
        if tier == 'thorough' or (h[0] != h[1] and h[1] != h[2]):
            out.append({'kind': 'history', 'history': list(h), 'tier': tier})
    return out


def run_history(item):
    import random
    import sweetpea as sp
    from vt import ref as R, build as B
    pool = history_pool()
    viols = []
    calls = 0
    random.seed(11)
    answered = 0
    for pos, i in enumerate(item['history']):
        spec = pool[i]
        objs, block = core.quiet(B.build, spec)
        checker = R.Checker(spec)
        with seams.smgen_seams(None):
            try:
                res = core.quiet(sp.synthesize_trials, block, 2, sp.SMGen)
            except Exception as e:
                if type(e) is Exception:
                    continue
                viols.append(core.viol('internal_error', {'kind': 'history', 'exc': type(e).__name__, 'position': pos}, history=item['history'],
                                       message=str(e)[:160]))
                break
        calls += 1
        try:
            tup = dsw.tuples(res, checker.design)
        except (KeyError, IndexError) as e:
            viols.append(core.viol('malformed_result', {'kind': 'history', 'position': pos}, history=item['history']))
            break
        bad = [s for s in tup if not checker.valid(s)]
        answered += 1
        if bad:
            viols.append(core.viol('invalid_sequence_after_earlier_calls', {'kind': 'history', 'position': pos, 'design': i,
                                                                            'after': item['history'][pos - 1] if pos else -1},
                                   history=item['history'], example=bad[0], T_ref=checker.Ts))
            break
    if viols:
        return core.bad(viols, states=len(item['history']), transitions=max(1, calls), nontrivial=True, outcome=['history', answered])
    return core.ok(states=len(item['history']), transitions=max(1, calls), validated=answered, nontrivial=answered >= 2, outcome=['history', answered])


def run_item(item):
    import sweetpea as sp
    if item.get('kind') == 'history':
        return run_history(item)
    c, sk = dsw.setup(item['spec'], item['tier'], fallback_checker=True)
    if sk:
        return sk
    sig = dict(c.sig, gen='sm')
    stats = Counter()
    viols = []
    seen = set()

    def make_run(fire_at):
        def run(script):
            block = dsw.rebuild(c)
            count = [0]
            fired = []

            def on_draw():
                if fire_at is not None and count[0] == fire_at:
                    for t in seams.FakeTimer.instances:
                        fired.append(t.fire())
                count[0] += 1
            try:
                with seams.smgen_seams(script, on_draw=on_draw) as timers:
                    res = core.quiet(sp.synthesize_trials, block, 1, sp.SMGen)
                    pending = [t for t in timers if t.started and not t.cancelled]
            except explore.Horizon:
                raise
            except Exception as e:
                return ('refuse',) if type(e) is Exception else ('internal', type(e).__name__, str(e)[:160])
            return ('ok', res, len(pending))
        return run

    def judge(script, out):
        stats[out[0]] += 1

        def add(kind, **d):
            if kind not in seen:
                seen.add(kind)
                viols.append(core.viol(kind, sig, design=dsw.brief(c.spec), schedule=script.choices()[:60], **d))
        if out[0] == 'internal':
            add('internal_error', exc=out[1], message=out[2])
        elif out[0] == 'ok':
            res = out[1]
            try:
                tup = dsw.tuples(res, c.design)
            except (KeyError, IndexError) as e:
                add('malformed_result', exc=type(e).__name__, keys=sorted(map(str, res[0].keys())) if res else None)
                return
            ok, bad = dsw.all_valid(c, tup)
            if not ok:
                add('invalid_sequence', example=bad, T_ref=(c.ref.Ts if c.ref is not None else c.checker.Ts))
            if out[2]:
                add('timer_left_running', pending=out[2])
    execs = points = 0
    horizon_hits = 0
    for fire_at in (None, 0, 7):
        ex = explore.explore_choices(make_run(fire_at), bound=DEV[item['tier']] if fire_at is None else 0, horizon=4000,
                                     on_result=judge, cap=CAP[item['tier']], wall=20)
        execs += ex.executions
        points += ex.choice_points
        horizon_hits += ex.horizon_hits
        if stats['refuse'] == execs:
            break          # a refusal does not depend on draws or timer
    outcome = [dict(stats), horizon_hits]
    nt = stats['ok'] > 0
    if viols:
        return core.bad(viols, states=execs, transitions=max(1, points), nontrivial=nt, outcome=outcome)
    return core.ok(states=execs, transitions=max(1, points), validated=stats['ok'], nontrivial=nt, outcome=[sorted(stats), horizon_hits > 0],
                   refused=stats['refuse'] == execs, horizon_hits=horizon_hits)


def finalize(items_, results, tier):
    return {'designs_refused': sum(1 for r in results if r.get('refused')), 'designs_answered': sum(1 for r in results if r.get('status') == 'ok' and not r.get('refused')),
            'executions_cut_at_horizon': sum(r.get('horizon_hits', 0) for r in results)}


def sample_of(item, res):
    if item.get('kind') == 'history':
        return {'call_history_of_pool_designs': item['history'], 'explored': res.get('outcome')}
    return dsw.sample_of(item, res)
