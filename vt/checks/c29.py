"""C29 - SMGen either refuses a design or returns valid sequences.

E1 x E2: single- and multi-block designs (strata S1, S1x, S2, S2s, S4, S6 - including every constraint class SMGen does not
implement, MinimumTrials, Repeat/Merge/Nest wrappers) x every schedule of SMGen's random() draws within a deviation bound
of the default (all-zero) schedule (the scripted random() returns a probe whose multiplication reveals the arity of
int(random()*n), so branching is exact), horizon on draws per execution, x timer events (the threading.Timer is replaced
by a recording fake; its handler is fired at no draw / at one scripted draw position, with its exception swallowed exactly
as a timer thread would).
Oracle: the outcome is a refusal (an Exception raised by SMGen's own _cexit, i.e. type(e) is Exception) or every returned
sequence is valid for the design (reference set / membership oracle: documented trial count, crossing with weights,
derived levels, every constraint); any other exception type is an internal failure.
"""
from collections import Counter
from vt import core, dsw, explore, seams

PROP = 'C29'
RULE = ('designs of strata S1, S1x, S2, S2s, S4, S6 (quick: stratified core + seed-rotated members); per design all draw schedules with <= D '
        'non-default draws (D = 1 quick, 2 thorough; capped), horizon 4000 draws, timer fired at draw positions {none, 0, middle}; '
        'states = executions, transitions = draws; non-trivial = SMGen returned sequences (did not refuse).')
ASSUMPTIONS = ['reference model vt/ref.py (set or single-sequence membership oracle)',
               'the timer callback runs in its own thread where an exception only prints a traceback: its only interaction with the search is '
               'when it fires; byte-code-level preemption inside CPython is not modelled']
BUDGET_S = {'quick': 90, 'thorough': 600}
STRATA = ['S1', 'S1x', 'S2', 'S2s', 'S4', 'S6']
QUICK_CAPS = {'S1': 320, 'S1x': 60, 'S2': 200, 'S4': 60, 'S6': 30}
DEV = {'quick': 1, 'thorough': 2}
CAP = {'quick': 150, 'thorough': 3000}


def items(tier, seed):
    return dsw.design_items(STRATA, tier, seed, QUICK_CAPS)


def run_item(item):
    import sweetpea as sp
    c, sk = dsw.setup(item['spec'], item['tier'], fallback_checker=True)
    if sk:
        return sk
    sig = dict(c.sig, gen='sm')
    stats = Counter()
    viols = []
    seen = set()

    def make_run(fire_at):
        def run(script):
            block = dsw.rebuild(c)
            count = [0]
            fired = []

            def on_draw():
                if fire_at is not None and count[0] == fire_at:
                    for t in seams.FakeTimer.instances:
                        fired.append(t.fire())
                count[0] += 1
            try:
                with seams.smgen_seams(script, on_draw=on_draw) as timers:
                    res = core.quiet(sp.synthesize_trials, block, 1, sp.SMGen)
                    pending = [t for t in timers if t.started and not t.cancelled]
            except explore.Horizon:
                raise
            except Exception as e:
                return ('refuse',) if type(e) is Exception else ('internal', type(e).__name__, str(e)[:160])
            return ('ok', res, len(pending))
        return run

    def judge(script, out):
        stats[out[0]] += 1

        def add(kind, **d):
            if kind not in seen:
                seen.add(kind)
                viols.append(core.viol(kind, sig, design=dsw.brief(c.spec), schedule=script.choices()[:60], **d))
        if out[0] == 'internal':
            add('internal_error', exc=out[1], message=out[2])
        elif out[0] == 'ok':
            res = out[1]
            try:
                tup = dsw.tuples(res, c.design)
            except (KeyError, IndexError) as e:
                add('malformed_result', exc=type(e).__name__, keys=sorted(map(str, res[0].keys())) if res else None)
                return
            ok, bad = dsw.all_valid(c, tup)
            if not ok:
                add('invalid_sequence', example=bad, T_ref=(c.ref.Ts if c.ref is not None else c.checker.Ts))
            if out[2]:
                add('timer_left_running', pending=out[2])
    execs = points = 0
    horizon_hits = 0
    for fire_at in (None, 0, 7):
        ex = explore.explore_choices(make_run(fire_at), bound=DEV[item['tier']] if fire_at is None else 0, horizon=4000,
                                     on_result=judge, cap=CAP[item['tier']], wall=20)
        execs += ex.executions
        points += ex.choice_points
        horizon_hits += ex.horizon_hits
        if stats['refuse'] == execs:
            break          # a refusal does not depend on draws or timer
    outcome = [dict(stats), horizon_hits]
    nt = stats['ok'] > 0
    if viols:
        return core.bad(viols, states=execs, transitions=max(1, points), nontrivial=nt, outcome=outcome)
    return core.ok(states=execs, transitions=max(1, points), validated=stats['ok'], nontrivial=nt, outcome=[sorted(stats), horizon_hits > 0],
                   refused=stats['refuse'] == execs, horizon_hits=horizon_hits)


def finalize(items_, results, tier):
    return {'designs_refused': sum(1 for r in results if r.get('refused')), 'designs_answered': sum(1 for r in results if r.get('status') == 'ok' and not r.get('refused')),
            'executions_cut_at_horizon': sum(r.get('horizon_hits', 0) for r in results)}


sample_of = dsw.sample_of
