"""C16 - trial count follows the documented rules; every sequence has that length.

E1: every design of the strata; Block.trials_per_sample() is compared with the trial count T computed by the reference
model from the documented arithmetic (weighted crossing size, minus excluded/impossible combinations when complete
crossing is not required, plus preamble of the latest-starting crossed derived factor, at least MinimumTrials, maximum
over crossings for MultiCrossBlock/Merge by alignment, multiplied out for Repeat and Nest); then one sequence is drawn
through every strategy (IterateSATGen, RandomGen, CMSGen, UniGen, IterateGen, UniformGen; SMGen where it does not
refuse) and every returned column must have exactly T entries.
"""
import random
from vt import core, dsw

PROP = 'C16'
RULE = ('designs of strata S1, S1x, S2, S3, S4, S5, S6 (quick: fixed core + seed-rotated slice); per design the reported trial count '
        'and the column lengths of one sequence per strategy are compared with the reference T. states = (design, strategy) pairs '
        'that returned a sequence; non-trivial = T differs from the plain product of crossed level counts (weights, exclusions, '
        'preamble, MinimumTrials or a combinator changed it).')
ASSUMPTIONS = ['reference arithmetic in vt/ref.py is the documented one (readings A5 where under-specified)']
BUDGET_S = {'quick': 60, 'thorough': 300}
STRATA = ['S1', 'S1n', 'S1p', 'S1x', 'S2', 'S2s', 'S3', 'S4', 'S5', 'S6']
QUICK_CAPS = dsw.QUICK_CAPS_MID
GENS = ['sat', 'rnd', 'cms', 'uni', 'iter', 'uniform', 'sm']


def items(tier, seed):
    return dsw.design_items(STRATA, tier, seed, QUICK_CAPS, extra={'seed': seed})


def plain_product(spec):
    fm = {f['name']: f for f in spec['factors']}
    b = spec['block']
    if b['op'] != 'cross':
        return None
    n = 1
    for c in b['crossing']:
        n *= len(fm[c]['levels'])
    return n


def run_item(item):
    import numpy
    c, sk = dsw.setup(item['spec'], item['tier'], ref_limit=60000)
    if sk:
        return sk
    sig = dict(c.sig)
    if c.ref.errors:
        # the documentation gives such a design no sequences at all (e.g. complete crossing impossible); its trial
        # count is not determined
        return core.skip('design has no sequences by construction')
    try:
        T = c.block.trials_per_sample()
    except Exception as e:
        return core.bad(core.viol('trials_per_sample_raises', dict(sig, exc=type(e).__name__), design=dsw.brief(c.spec), message=str(e)[:200]))
    Ts = sorted(set(c.ref.Ts))
    nt = T != plain_product(c.spec)
    if T not in Ts:
        return core.bad(core.viol('wrong_trial_count', sig, design=dsw.brief(c.spec), reported=T, documented=Ts), nontrivial=nt, outcome=[T])
    random.seed(item.get('seed', 0))
    numpy.random.seed(item.get('seed', 0))
    viols = []
    states = 0
    for g in GENS:
        block = dsw.rebuild(c)
        exps, e, out = dsw.synth(block, 1, g)
        if e is not None or not exps:
            continue        # refusals / internal errors / no solution: C08, C29
        states += 1
        for k, v in exps[0].items():
            if len(v) != T:
                viols.append(core.viol('wrong_length', dict(sig, gen=g), design=dsw.brief(c.spec), column=str(k), length=len(v), T=T))
                break
    if viols:
        return core.bad(viols, states=states + 1, transitions=states + 1, nontrivial=nt, outcome=[T])
    return core.ok(states=states + 1, transitions=len(GENS) + 1, validated=states, nontrivial=nt, outcome=[T, states])


sample_of = dsw.sample_of
