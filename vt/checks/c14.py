"""C14 - trial/factor/level variables are allocated and decoded consistently.

E1 x E4: for every design (complex windows with stride/start, sustain under Nest, excluded levels, hidden weight factors)
and every (trial, non-implied factor, level):
  * get_variable / factor_variables_for_trial give each choice its own variable: the map is injective, its image is
    exactly 1..variables_per_sample() (applicability of derived factors from the reference model), decode_variable inverts
    it, first_variable_for_level and build_variable_lists agree with it;
  * every variable of the compiled formula and requests that is not a trial variable is numbered above them, and the
    auxiliary variables the encoder allocates start above variables_per_sample();
  * Gen.decode of an assignment that picks one level per applicable (trial, factor) reports exactly those level names at
    those trials and '' where a factor does not apply - for ALL one-hot assignments when there are <= LIMIT of them,
    otherwise for all assignments within two choice-changes of two base assignments (reported as non-exhaustive).
"""
import itertools
from vt import core, dsw, ref as R, sat

PROP = 'C14'
RULE = ('designs of strata S1, S1x, S2, S3, S6 (+ Repeat S4) (quick: stratified core + seed-rotated members); states = (trial, factor, level) '
        'triples + one-hot assignments decoded, transitions = library calls; non-trivial = the design has a complex-window factor, '
        'an excluded level, a sustained factor or a hidden weight factor (allocation is not a plain grid).')
ASSUMPTIONS = ['which trials a derived factor applies to is taken from the reference model (documented start/stride rules)']
BUDGET_S = {'quick': 60, 'thorough': 300}
STRATA = ['S1', 'S1x', 'S2', 'S3', 'S4', 'S6', 'S6a']
QUICK_CAPS = {'S1': 700, 'S1x': 150, 'S2': 350, 'S3': 400, 'S4': 170, 'S6': 50}
LIMIT = {'quick': 3000, 'thorough': 50000}


def items(tier, seed):
    return dsw.design_items(STRATA, tier, seed, QUICK_CAPS)


def run_item(item):
    from sweetpea._internal.sampling_strategy.base import Gen
    from sweetpea._internal.primitive import HiddenName
    c, sk = dsw.setup(item['spec'], item['tier'], need_ref=False)
    if sk:
        return sk
    block = c.block
    sig = dict(c.sig)
    fm = R.fmap(c.spec)
    try:
        T = block.trials_per_sample()
        vps = block.variables_per_sample()
    except Exception as e:
        return core.skip('trials_per_sample raises (C08)')
    viols = []
    states = transitions = 0
    # --- allocation
    cells = []        # (t, factor, [(level, var)])
    seen = {}
    special = False
    for f in block.act_design:
        name = f.name.name if isinstance(f.name, HiddenName) else f.name
        sus = block.sustain_count(f)
        if sus != 1 or isinstance(f.name, HiddenName) or f.has_complex_window:
            special = True
        for t in range(T):
            spec_f = fm.get(name)
            if spec_f is not None and not isinstance(f.name, HiddenName) and R.is_derived(spec_f):
                expect_applies = R.applies(fm, spec_f, t, sus)
            else:
                expect_applies = True
            applies = f.applies_to_trial(t // sus + 1)
            if applies != expect_applies:
                viols.append(core.viol('applicability_differs_from_documented', sig, design=dsw.brief(c.spec), factor=str(name), trial=t,
                                       library=applies, documented=expect_applies))
                continue
            if not applies:
                try:
                    block.factor_variables_for_trial(f, t + 1)
                    viols.append(core.viol('variables_for_inapplicable_trial', sig, design=dsw.brief(c.spec), factor=str(name), trial=t))
                except ValueError:
                    pass
                continue
            row = []
            for l in f.levels:
                try:
                    v = block.get_variable(t + 1, (f, l))
                    transitions += 1
                except Exception as e:
                    viols.append(core.viol('get_variable_raises', dict(sig, exc=type(e).__name__), design=dsw.brief(c.spec), factor=str(name),
                                           trial=t, message=str(e)[:200]))
                    continue
                states += 1
                key = (t, str(name), l.name, id(l))
                if v in seen:
                    viols.append(core.viol('variable_shared', sig, design=dsw.brief(c.spec), variable=v, a=list(seen[v][:3]), b=list(key[:3])))
                seen[v] = key
                row.append((l, v))
                if not (1 <= v <= vps):
                    viols.append(core.viol('variable_out_of_range', sig, design=dsw.brief(c.spec), variable=v, variables_per_sample=vps,
                                           cell=list(key[:3])))
                else:
                    try:
                        df, dl = block.decode_variable(v)
                        if df is not f or dl is not l:
                            viols.append(core.viol('decode_variable_not_inverse', sig, design=dsw.brief(c.spec), variable=v, cell=list(key[:3]),
                                                   decoded=[str(df.name), str(dl.name)]))
                    except Exception as e:
                        viols.append(core.viol('decode_variable_raises', dict(sig, exc=type(e).__name__), design=dsw.brief(c.spec), variable=v))
            try:
                fv = block.factor_variables_for_trial(f, t + 1)
                excluded = [l for l in f.levels if (f, l) in block.exclude]
                want = [v for l, v in row if l not in excluded]
                if sorted(fv) != sorted(want):
                    viols.append(core.viol('factor_variables_for_trial_differs', sig, design=dsw.brief(c.spec), factor=str(name), trial=t,
                                           got=fv, expected=want))
            except Exception as e:
                viols.append(core.viol('factor_variables_for_trial_raises', dict(sig, exc=type(e).__name__), design=dsw.brief(c.spec),
                                       factor=str(name), trial=t))
            cells.append((t, f, name, row))
        # build_variable_lists: whole-sequence list of a level's variables
        for l in f.levels:
            try:
                lists = block.build_variable_lists((f, l), None)
                flat = [v for lst in lists for v in lst]
                want = [v for (t, ff, nm, row) in cells if ff is f for (ll, v) in row if ll is l]
                if sorted(flat) != sorted(want):
                    viols.append(core.viol('build_variable_lists_differs', sig, design=dsw.brief(c.spec), factor=str(name), level=l.name,
                                           got=flat, expected=want))
            except Exception as e:
                viols.append(core.viol('build_variable_lists_raises', dict(sig, exc=type(e).__name__), design=dsw.brief(c.spec), factor=str(name)))
    if block.exclude:
        special = True
    if not viols and sorted(seen) != list(range(1, vps + 1)):
        missing = sorted(set(range(1, vps + 1)) - set(seen))[:10]
        viols.append(core.viol('image_is_not_1_to_variables_per_sample', sig, design=dsw.brief(c.spec), variables_per_sample=vps,
                               allocated=len(seen), missing=missing))
    # --- auxiliary variables above the trial variables
    if not viols:
        try:
            br = core.quiet(dsw.rebuild(c).build_backend_request)
            if br.fresh <= vps and False:
                pass
            from sweetpea._internal.core.cnf import CNF
            from sweetpea._internal.core.generate.utility import combine_cnf_with_requests
            # variables used by the design-level formulas before cardinality encoding
            used = set()
            for cl in CNF(br.get_cnfs_as_json()).as_list_of_list_of_ints() if hasattr(CNF, 'as_list_of_list_of_ints') else []:
                used |= {abs(x) for x in cl}
            reqvars = set()
            for rq in br.get_requests_as_generation_requests():
                reqvars |= {int(v) for v in rq.boolean_values}
            low_aux = sorted(v for v in reqvars if v > vps and v < vps + 1)
            first_fresh = vps + 1
            cnf_all = combine_cnf_with_requests(CNF(br.get_cnfs_as_json()), br.fresh - 1, vps, br.get_requests_as_generation_requests())
            allv = set(sat.variables_of(sat.cnf_to_lists(cnf_all)))
            newv = allv - used - reqvars
            if newv and min(newv) < br.fresh:
                viols.append(core.viol('auxiliary_variable_below_fresh', sig, design=dsw.brief(c.spec), fresh=br.fresh, lowest_new=min(newv)))
            if br.fresh <= vps:
                viols.append(core.viol('fresh_not_above_trial_variables', sig, design=dsw.brief(c.spec), fresh=br.fresh, variables_per_sample=vps))
        except Exception as e:
            pass        # compile-time exceptions are C08's subject
    # --- decoding one-hot assignments
    exhaustive = True
    if not viols and cells:
        names_in_act = [str(nm) for nm in dict.fromkeys(nm for (_, _, nm, _) in cells)]
        total = 1
        for (_, _, _, row) in cells:
            total *= max(1, len(row))
            if total > LIMIT[item['tier']]:
                break

        def assignments():
            if total <= LIMIT[item['tier']]:
                for pick in itertools.product(*[range(len(row)) for (_, _, _, row) in cells]):
                    yield pick
            else:
                for base in (0, -1):
                    b = [(0 if base == 0 else len(row) - 1) for (_, _, _, row) in cells]
                    yield tuple(b)
                    for i in range(len(cells)):
                        for a in range(len(cells[i][3])):
                            if a == b[i]:
                                continue
                            p = list(b); p[i] = a
                            yield tuple(p)
                            for j in range(i + 1, len(cells)):
                                for a2 in range(len(cells[j][3])):
                                    if a2 == b[j]:
                                        continue
                                    q = list(p); q[j] = a2
                                    yield tuple(q)
        exhaustive = total <= LIMIT[item['tier']]
        done = 0
        for pick in assignments():
            sol = []
            expect = {f.name: [''] * T for f in block.act_design}
            for (t, f, nm, row), k in zip(cells, pick):
                for i, (l, v) in enumerate(row):
                    sol.append(v if i == k else -v)
                expect.setdefault(f.name, [''] * T)[t] = row[k][0].name
            try:
                got = Gen.decode(block, list(sol))
                transitions += 1
            except Exception as e:
                viols.append(core.viol('decode_raises', dict(sig, exc=type(e).__name__), design=dsw.brief(c.spec), message=str(e)[:200]))
                break
            states += 1
            done += 1
            gotn = {k: list(v) for k, v in got.items()}
            if gotn != expect:
                bad = [str(k) for k in expect if gotn.get(k) != expect[k]] + [str(k) for k in gotn if k not in expect]
                k0 = [k for k in expect if gotn.get(k) != expect[k]][:1]
                viols.append(core.viol('decode_differs', sig, design=dsw.brief(c.spec), factors=bad[:4],
                                       expected=expect[k0[0]] if k0 else None, got=gotn.get(k0[0]) if k0 else None))
                break
            if done >= 4 * LIMIT[item['tier']]:
                exhaustive = False
                break
    outcome = [T, vps, exhaustive]
    if viols:
        first = {}
        for v in viols:
            first.setdefault(v['kind'], v)
        return core.bad(list(first.values()), states=max(1, states), transitions=max(1, transitions), nontrivial=special, outcome=outcome)
    return core.ok(states=max(1, states), transitions=max(1, transitions), validated=states, nontrivial=special, outcome=outcome,
                   decode_exhaustive=exhaustive)


def finalize(items_, results, tier):
    return {'designs_with_non_exhaustive_decode_space': sum(1 for r in results if r.get('status') == 'ok' and not r.get('decode_exhaustive', True))}


sample_of = dsw.sample_of
