"""C02 - exhausting IterateSATGen yields exactly the valid sequences.

E1: every design of the strata is built from fresh library objects; synthesize_trials(block, N_ref + 20, IterateSATGen)
runs the real solve -> truncate -> block -> solve loop with the real pycryptosat until it reports UNSAT.
Oracle: the returned multiset equals one reading of the reference multiset (each valid sequence exactly `multiplicity`
times - once when there are no uncrossed weights), [] iff the reference set is empty.
Each reference-valid sequence is thereby validated against the implementation (traces_validated_against_impl).
"""
from collections import Counter
from vt import core, dsw

PROP = 'C02'
RULE = ('designs of strata S1 (with S1d, S1L, S1n, S1p), S1x, S2 (with S2s), S3, S4, S5, S6 (bounded-exhaustive grammar, see vt/gen.py; quick = fixed core + seed-rotated '
        'slice), each with <= REF_LIMIT reference sequences; per design IterateSATGen is exhausted with the real solver and the '
        'returned multiset compared with the complete reference set. states = sequences returned, transitions = solver calls '
        '(returned + final UNSAT). Non-trivial = the design has >= 2 valid sequences.')
ASSUMPTIONS = ['reference model vt/ref.py states the documented semantics (readings where under-specified: DESIGN.md section 3)',
               'pycryptosat answers SAT/UNSAT correctly']
BUDGET_S = {'quick': 60, 'thorough': 300}
STRATA = ['S1', 'S1d', 'S1L', 'S1n', 'S1p', 'S1x', 'S2', 'S2s', 'S3', 'S4', 'S5', 'S6']
QUICK_CAPS = dsw.QUICK_CAPS_BIG


def items(tier, seed):
    return dsw.design_items(STRATA, tier, seed, QUICK_CAPS)


def run_item(item):
    c, sk = dsw.setup(item['spec'], item['tier'])
    if sk:
        return sk
    N = dsw.ref_size(c.ref)
    exps, e, out = dsw.synth(c.block, N + 20, 'sat')
    sig = dict(c.sig, gen='sat')
    if e is not None:
        return core.bad(core.viol('exception', dict(sig, exc=type(e).__name__), message=str(e)[:300], design=dsw.brief(c.spec)))
    try:
        tup = dsw.tuples(exps, c.design)
    except (KeyError, IndexError) as e2:
        return core.bad(core.viol('malformed_result', dict(sig, exc=type(e2).__name__), message=str(e2)[:300], design=dsw.brief(c.spec)))
    cnt = Counter(tup)
    i = dsw.match_exact(c.ref, cnt)
    nt = dsw.nontrivial(c.ref)
    if i is None:
        kinds, d = dsw.diff_detail(c.ref, cnt)
        return core.bad(core.viol('set_differs', dict(sig, diff=kinds), design=dsw.brief(c.spec), **d),
                        states=len(tup), transitions=len(tup) + 1, nontrivial=nt, outcome=[len(tup)])
    return core.ok(states=max(1, len(tup)), transitions=len(tup) + 1, validated=sum(c.ref.readings[i].values()), nontrivial=nt,
                   outcome=[len(tup), c.ref.Ts[i]])


sample_of = dsw.sample_of
