"""C06 - exhausting RandomGen yields exactly the valid set; the reported count is exact.

E1: every design RandomGen accepts is exhausted with the real sampler: RandomGen.sample(block, N_ref + 20), real PRNG
seeded from VERIF_SEED (the property quantifies over designs only - the returned set must not depend on the draw
order, which a second seed confirms per design).  Oracle: the returned multiset equals one reading of the reference
multiset and the call returns (a wrong count that makes the loop spin shows up as the per-design budget expiring and is
reported as 'does_not_terminate').  For designs that need no rejection step (no complex constraint or window, a single
crossing) the solution count in the sampling metrics must equal the number of valid sequences.
"""
import random
from collections import Counter
from vt import core, dsw

PROP = 'C06'
RULE = ('designs of strata S1, S1x, S2, S3, S4, S5, S6 (quick: stratified core + seed-rotated members) with <= REF_LIMIT reference sequences; '
        'per design RandomGen is exhausted under two PRNG seeds; states = sequences returned, transitions = sampler calls; '
        'non-trivial = >= 2 valid sequences.')
ASSUMPTIONS = ['reference model vt/ref.py (documented semantics; readings where under-specified)']
BUDGET_S = {'quick': 60, 'thorough': 300}
STRATA = ['S1', 'S1L', 'S1n', 'S1p', 'S1x', 'S2', 'S2s', 'S3', 'S4', 'S5', 'S6']
QUICK_CAPS = dsw.QUICK_CAPS_BIG
PK_CAP = {'quick': 3000, 'thorough': 30000}


def items(tier, seed):
    return dsw.design_items(STRATA, tier, seed, QUICK_CAPS, extra={'seed': seed})


def needs_no_rejection(spec):
    """No constraint that RandomGen enforces by rejection and no complex-window factor: every candidate is a solution."""
    if any('deps' in f and (f['width'] > 1 or f['stride'] > 1) for f in spec['factors']):
        return False
    ok = True

    def walk(x):
        nonlocal ok
        for cc in x.get('constraints', []):
            if cc['c'] not in ('MinimumTrials',):
                ok = False
        if x['op'] in ('multi', 'nest') or (x['op'] == 'merge' and len(x['blocks']) > 1):
            ok = False
        for k in ('block', 'outer', 'inner'):
            if k in x:
                walk(x[k])
        for y in x.get('blocks', []):
            walk(y)
    walk(spec['block'])
    return ok


def run_item(item):
    import sweetpea as sp
    import sweetpea._internal.sampling_strategy.random as R
    c, sk = dsw.setup(item['spec'], item['tier'], ref_limit={'quick': 1200, 'thorough': 20000}[item['tier']])
    if sk:
        return sk
    sig = dict(c.sig, gen='rnd')
    N = dsw.ref_size(c.ref)
    viols = []
    states = transitions = 0
    matched = None
    from vt import rnd
    try:
        pk, _ = rnd.possible_keys(c.block)
    except Exception as e:
        return core.skip('RandomGen raises %s (C08)' % type(e).__name__)
    if pk > PK_CAP[item['tier']]:
        # an exhausted RandomGen stops only after it has drawn every candidate key: with rejection-enforced constraints the
        # candidate space can be astronomically larger than the valid set
        return core.skip('candidate space too large to exhaust')
    for rep, seed in enumerate((item.get('seed', 0), item.get('seed', 0) + 7919)):
        random.seed(seed)
        block = dsw.rebuild(c)
        try:
            exps, e, out = dsw.synth(block, N + 20, 'rnd')
        except core.ItemTimeout:
            return core.bad(core.viol('does_not_terminate', sig, design=dsw.brief(c.spec), requested=N + 20, reference=N))
        transitions += 1
        if e is not None:
            return core.skip('RandomGen raises %s (C08)' % type(e).__name__)
        try:
            tup = dsw.tuples(exps, c.design)
        except (KeyError, IndexError) as e2:
            return core.bad(core.viol('malformed_result', dict(sig, exc=type(e2).__name__), design=dsw.brief(c.spec), message=str(e2)[:200]))
        states += len(tup)
        cnt = Counter(tup)
        i = dsw.match_exact(c.ref, cnt)
        if i is None:
            kinds, d = dsw.diff_detail(c.ref, cnt)
            viols.append(core.viol('set_differs', dict(sig, diff=kinds), design=dsw.brief(c.spec), prng_seed=seed, **d))
            break
        matched = i
    # reported count
    if not viols:
        block = dsw.rebuild(c)
        simple = needs_no_rejection(c.spec) and len(getattr(block, 'crossings', [])) == 1
        if simple and not c.ref.errors:
            random.seed(0)
            try:
                r = core.quiet(R.RandomGen.sample, block, 1)
                reported = r.metrics.get('solution_count')
                total = sum(c.ref.readings[matched].values())
                if reported is not None and reported != total:
                    rej = r.metrics.get('total_rejected', 0)
                    viols.append(core.viol('reported_solution_count_wrong', dict(sig, rounds='multi' if total and reported and total > reported else 'single'),
                                           design=dsw.brief(c.spec), reported=reported, valid_sequences=total))
            except Exception as e:
                pass
    nt = dsw.nontrivial(c.ref)
    if viols:
        return core.bad(viols, states=max(1, states), transitions=transitions + 1, nontrivial=nt, outcome=[states])
    return core.ok(states=max(1, states), transitions=transitions + 1, validated=sum(c.ref.readings[matched].values()), nontrivial=nt,
                   outcome=[states, c.ref.Ts[matched]])


sample_of = dsw.sample_of
