"""C03 - each trial sequence is exactly one model of the compiled formula.

E1 x E2(all models): for every design the complete formula is produced by the real build_cnf (backend request, Tseitin
conversion, cardinality requests) and ALL satisfying assignments over ALL variables are enumerated (incremental all-SAT
with blocking clauses over every variable).  Oracle: (i) #full models == #distinct projections onto the trial-sequence
variables 1..variables_per_sample(); (ii) == #distinct projections onto support_variables() (the non-derived factors,
"the values of these variables determine all others"); (iii) the sampling set ('c ind' lines) that save_cnf declares determines the whole model as well; (iv) every projection decodes without error.  For <= 16 variables the all-SAT count is
cross-checked by truth table.
"""
from collections import Counter
from vt import core, dsw, sat

PROP = 'C03'
RULE = ('designs of strata S1, S1x, S2, S3, S4, S5, S6 (quick: fixed core + seed-rotated slice) whose full formula has <= CAP models; '
        'states = full models enumerated, transitions = solver calls; non-trivial = the formula has auxiliary variables beyond the '
        'trial-sequence variables and >= 2 models.')
ASSUMPTIONS = ['pycryptosat is a correct SAT oracle (truth-table cross-check when <= 16 variables)']
BUDGET_S = {'quick': 60, 'thorough': 300}
STRATA = ['S1', 'S1n', 'S1p', 'S1x', 'S2', 'S2s', 'S3', 'S4', 'S5', 'S6']
QUICK_CAPS = dsw.QUICK_CAPS_BIG
CAP = {'quick': 1500, 'thorough': 20000}


def items(tier, seed):
    return dsw.design_items(STRATA, tier, seed, QUICK_CAPS)


def run_item(item):
    import tempfile, os
    c, sk = dsw.setup(item['spec'], item['tier'], need_ref=False)
    if sk:
        return sk
    sig = dict(c.sig)
    try:
        clauses, support, failed, cnf = dsw.compiled(c.block)
    except Exception as e:
        return core.skip('build_cnf raises %s (C08)' % type(e).__name__)
    if failed:
        return core.skip('design reports an error (no sequences by construction)')
    cap = CAP[item['tier']]
    allv = sat.variables_of(clauses)
    nv = max(allv) if allv else 0
    over = list(range(1, nv + 1))
    full = sat.all_models(clauses, over=over, limit=cap + 1)
    if len(full) > cap:
        return core.skip('more than CAP models')
    if nv <= 16 and sat.count_models_truth_table(clauses + [[v, -v] for v in over]) != len(full):
        raise core.HarnessError('solver / truth table disagree')
    basic = sorted(c.block.support_variables())
    proj = Counter(tuple(m[:support]) for m in full)
    projb = Counter(tuple(m[v - 1] for v in basic) for m in full)
    viols = []
    nt = nv > support and len(full) >= 2
    if len(proj) != len(full):
        ex = [list(k) for k, n in proj.items() if n > 1][:1]
        viols.append(core.viol('several_models_per_sequence', sig, design=dsw.brief(c.spec), models=len(full), sequences=len(proj),
                               example_projection=ex, max_models_per_sequence=max(proj.values())))
    if len(projb) != len(proj):
        viols.append(core.viol('basic_factors_do_not_determine_sequence', sig, design=dsw.brief(c.spec), sequences=len(proj),
                               basic_projections=len(projb)))
    # sampling set written to the solver file
    from sweetpea._internal.main import save_cnf
    fn = 'c03_%d.cnf' % os.getpid()
    try:
        core.quiet(save_cnf, dsw.rebuild(c), fn)
        ind = []
        for line in open(fn):
            if line.startswith('c ind'):
                ind += [int(x) for x in line.split()[2:] if x != '0']
        # whatever sampling set the library declares must determine the whole model (else a uniform sampler over it is
        # not uniform over sequences)
        if ind and max(ind) <= nv:
            proji = Counter(tuple(m[v - 1] for v in ind) for m in full)
            if len(proji) != len(full):
                viols.append(core.viol('declared_sampling_set_does_not_determine_model', sig, design=dsw.brief(c.spec), ind=ind[:40],
                                       models=len(full), projections=len(proji)))
        elif full:
            viols.append(core.viol('declared_sampling_set_out_of_range', sig, design=dsw.brief(c.spec), ind=ind[:40], nvars=nv))
    except Exception as e:
        viols.append(core.viol('save_cnf_raises', dict(sig, exc=type(e).__name__), design=dsw.brief(c.spec), message=str(e)[:200]))
    finally:
        if os.path.exists(fn):
            os.unlink(fn)
    for m in list(proj)[:200]:
        try:
            dsw.decode_solution(c.block, [l for l in m])
        except Exception as e:
            viols.append(core.viol('decode_raises', dict(sig, exc=type(e).__name__), design=dsw.brief(c.spec), message=str(e)[:200]))
            break
    if viols:
        return core.bad(viols, states=len(full), transitions=len(full) + 1, nontrivial=nt, outcome=[len(full), len(proj)])
    return core.ok(states=max(1, len(full)), transitions=len(full) + 1, validated=len(proj), nontrivial=nt, outcome=[len(full), nv - support > 0])


sample_of = dsw.sample_of
