"""C10 - cardinality constraints are encoded exactly.

E4: all (numbering, n, k, relation) tuples up to the bound x all 2^n assignments of the n variables.
Drive: the real combine_cnf_with_requests (request dispatch -> assert_k_of_n / _inequality_assertion).
Oracle: under the assignment, satisfiable iff count REL k, and then exactly one extension to the auxiliaries;
every auxiliary variable is numbered above `fresh`.
"""
import itertools
from vt import core, sat

PROP = 'C10'
RULE = ('all (variable numbering, n, k, relation) with n<=N, 0<=k<=n+4, relation in EQ/LT/GT, plus pairs of requests '
        'sharing variables; per tuple all 2^n assignments of the request variables, each decided by exhaustive '
        'enumeration of the satisfying extensions (solver under assumptions, cross-checked by truth table when '
        '<=16 variables). A tuple is non-trivial when both satisfiable and unsatisfiable assignments occur.')
ASSUMPTIONS = ['pycryptosat is a correct SAT oracle (cross-checked by truth table on formulas with <=16 variables)',
               '"fewer than k" = count < k, "more than k" = count > k, "exactly k" = count == k']
BUDGET_S = {'quick': 60, 'thorough': 300}


def rel_holds(rel, count, k):
    return {'EQ': count == k, 'LT': count < k, 'GT': count > k}[rel]


def numberings(n):
    yield 'dense', list(range(1, n + 1)), n
    yield 'gapped', [2 * i + 1 for i in range(n)], 2 * n + 3
    yield 'reversed', list(range(n, 0, -1)), n + 2


def items(tier, seed):
    N = 6 if tier == 'quick' else 9
    out = []
    for n in range(1, N + 1):
        for name, vs, fresh in numberings(n):
            if tier == 'quick' and name == 'reversed' and n > 4:
                continue
            for k in range(0, n + 5):
                for rel in ('EQ', 'LT', 'GT'):
                    out.append({'reqs': [[rel, k, vs]], 'fresh': fresh, 'numbering': name})
    # pairs of requests sharing variables
    P = 4 if tier == 'quick' else 5
    for n in range(2, P + 1):
        allv = list(range(1, n + 1))
        subs = [allv, allv[:-1], allv[1:]]
        for (r1, r2) in itertools.product(('EQ', 'LT', 'GT'), repeat=2):
            for k1 in range(0, n + 1):
                for k2 in range(0, n + 1):
                    for s2 in subs[1:]:
                        out.append({'reqs': [[r1, k1, allv], [r2, k2, s2]], 'fresh': n, 'numbering': 'pair'})
    # pairs (and a triple) of requests over the SAME variable list (shared counters / different counter widths)
    Q = 5 if tier == 'quick' else 8
    for n in range(2, Q + 1):
        allv = list(range(1, n + 1))
        ks = sorted(set([0, 1, 2, n // 2, n - 1, n]))
        for (r1, r2) in itertools.product(('EQ', 'LT', 'GT'), repeat=2):
            for k1 in ks:
                for k2 in ks:
                    out.append({'reqs': [[r1, k1, allv], [r2, k2, allv]], 'fresh': n, 'numbering': 'samelist'})
        out.append({'reqs': [['GT', 0, allv], ['LT', n, allv], ['GT', 1, allv]], 'fresh': n, 'numbering': 'samelist'})
    return out


def run_item(item):
    from sweetpea._internal.core.cnf import CNF, Var
    from sweetpea._internal.core.generate.utility import combine_cnf_with_requests, GenerationRequest, AssertionType
    reqs = [GenerationRequest(AssertionType[r], k, [Var(v) for v in vs]) for r, k, vs in item['reqs']]
    inputs = sorted({v for _, _, vs in item['reqs'] for v in vs})
    fresh = item['fresh']
    sig = {'rel': '+'.join(r for r, _, _ in item['reqs']), 'numbering': item['numbering']}
    if len(item['reqs']) == 1:
        r, k, vs = item['reqs'][0]
        sig['k_vs_n'] = 'k<n' if k < len(vs) else ('k==n' if k == len(vs) else 'k>n')
    try:
        cnf = combine_cnf_with_requests(CNF(), fresh, len(inputs), reqs)
    except Exception as e:
        return core.bad(core.viol('exception', dict(sig, exc=type(e).__name__), message=str(e)[:300]))
    clauses = sat.cnf_to_lists(cnf)
    allvars = sat.variables_of(clauses)
    aux = [v for v in allvars if v not in inputs]
    viols = []
    if any(v <= fresh for v in aux):
        viols.append(core.viol('aux_not_fresh', sig, aux=[v for v in aux if v <= fresh], fresh=fresh))
    nsat = nunsat = 0
    states = transitions = 0
    small = len(allvars) <= 16
    for bits in itertools.product((0, 1), repeat=len(inputs)):
        assign = {v: b for v, b in zip(inputs, bits)}
        expected = all(rel_holds(r, sum(assign[v] for v in vs), k) for r, k, vs in item['reqs'])
        assumptions = [v if b else -v for v, b in assign.items()]
        models = sat.all_models(clauses, over=aux, assumptions=assumptions, limit=3)
        states += 1
        transitions += len(models) + 1
        if small:
            tt = sat.count_models_truth_table(clauses, assumptions)
            if min(tt, 3) != len(models):
                raise core.HarnessError('solver/truth-table disagreement %r %r' % (item, assign))
        if expected:
            nsat += 1
            if len(models) == 0:
                viols.append(core.viol('unsat_but_relation_holds', sig, assignment=assign))
            elif len(models) > 1:
                viols.append(core.viol('extension_not_unique', sig, assignment=assign))
        else:
            nunsat += 1
            if models:
                viols.append(core.viol('sat_but_relation_fails', sig, assignment=assign))
    nontrivial = nsat > 0 and nunsat > 0
    outcome = [sig['rel'], nsat, nunsat]
    if viols:
        # one violation record per kind for this item
        first = {}
        for v in viols:
            first.setdefault(v['kind'], v)
        return core.bad(list(first.values()), states, transitions, 0, nontrivial, outcome)
    return core.ok(states, transitions, 0, nontrivial, outcome)


def sample_of(item, res):
    return {'requests': item['reqs'], 'fresh': item['fresh'], 'assignments_checked': res['states']}
