"""C04 - RandomGen returns only valid trial sequences.

E1 x E2: for every design RandomGen accepts, the WHOLE choice tree of random.randrange draws behind one candidate is
explored (scripted PRNG at the module seam, prefix replay, no deviation bound); a candidate the sampler rejects ends the
execution.  The real pipeline runs per execution: UCSolutionEnumerator -> generate_random_samples -> combine rounds ->
fill in derived levels -> rejection test -> names -> implied levels -> hidden-key filter.
Oracle: every ACCEPTED candidate's sequence is in (one reading of) the reference set.
"""
from vt import core, dsw, rnd

PROP = 'C04'
RULE = ('designs of strata S1 (with S1d, S1L, S1n, S1p), S1x, S2 (with S2s), S3, S4, S5, S6 (quick: fixed core + seed-rotated slice) with <= REF_LIMIT reference sequences whose '
        'candidate tree has <= CAP leaves; states = executions (candidates), transitions = choice points explored; non-trivial = at '
        'least one candidate was rejected or the design has a derived factor (so acceptance/fill-in logic was exercised) and >= 2 '
        'candidates were accepted.')
ASSUMPTIONS = ['reference model vt/ref.py (documented semantics; readings where under-specified)',
               'random.randrange is RandomGen\'s only source of nondeterminism (one schedule is replayed twice per design and must reproduce)']
BUDGET_S = {'quick': 90, 'thorough': 600}
STRATA = ['S1', 'S1d', 'S1L', 'S1n', 'S1p', 'S1x', 'S2', 'S2s', 'S3', 'S4', 'S5', 'S6']
QUICK_CAPS = dsw.QUICK_CAPS_BIG
MODE = 'sound'
REF_LIMIT = {'quick': 1200, 'thorough': 20000}     # the reference enumeration is cheap; the sampler side is bounded by CAP leaves
DEV = {'quick': 1, 'thorough': 2}


def items(tier, seed):
    return dsw.design_items(STRATA, tier, seed, QUICK_CAPS)


def run_item(item, mode=None):
    mode = mode or MODE
    c, sk = dsw.setup(item['spec'], item['tier'], ref_limit=REF_LIMIT[item['tier']], fallback_checker=(mode == 'sound'))
    if sk:
        return sk
    sig = dict(c.sig, gen='rnd')
    if c.ref is not None:
        info = rnd.explore_candidates(c, item['tier'])
        if info.get('exception') is not None:
            return core.skip('RandomGen raises %s (C08)' % type(info['exception']).__name__)
        ex = info['ex']
    if c.ref is None or not ex.complete:
        if mode != 'sound':
            return core.skip('candidate tree larger than CAP')
        # too large for the full tree: every schedule within DEV deviations of the default (all-zero) draw sequence, accepted
        # candidates judged by the reference set or the single-sequence membership oracle
        baseline = rnd.find_accepting_schedule(c)
        info = rnd.explore_candidates(c, item['tier'], bound=DEV[item['tier']], baseline=baseline)
        if info.get('exception') is not None:
            return core.skip('RandomGen raises %s (C08)' % type(info['exception']).__name__)
        ex = info['ex']
        acc = info['accepted']
        ok, bad = dsw.all_valid(c, list(acc))
        outcome = [ex.executions, sum(acc.values()), info['rejected'], 'bounded']
        if not ok:
            return core.bad(core.viol('invalid_sequence_accepted', dict(sig, bounded=True), design=dsw.brief(c.spec), invalid_example=bad),
                            states=ex.executions, transitions=ex.choice_points + 1, nontrivial=True, outcome=outcome)
        return core.ok(states=ex.executions, transitions=ex.choice_points + 1, validated=sum(acc.values()), nontrivial=sum(acc.values()) >= 2,
                       outcome=outcome, bounded=True)
    acc = info['accepted']
    viols = []
    if info['error']:
        viols.append(core.viol('malformed_result', dict(sig, exc=info['error'][1]), design=dsw.brief(c.spec), message=info['error'][2]))
    if info['first'] is not None:
        rnd.replay_twice(c, info['first'])
    nt = (info['rejected'] > 0 or any('deps' in f for f in c.spec['factors'])) and sum(acc.values()) >= 2
    outcome = [ex.executions, sum(acc.values()), info['rejected']]
    if mode == 'sound':
        if dsw.match_subset(c.ref, list(acc)) is None:
            kinds, d = dsw.diff_detail(c.ref, acc)
            d.pop('missing_count', None); d.pop('missing_example', None)
            viols.append(core.viol('invalid_sequence_accepted', sig, design=dsw.brief(c.spec), **d))
    else:
        i = dsw.match_exact(c.ref, acc)
        if i is None:
            kinds, d = dsw.diff_detail(c.ref, acc)
            viols.append(core.viol('candidates_not_in_bijection', dict(sig, diff=kinds), design=dsw.brief(c.spec), candidates=ex.executions,
                                   rejected=info['rejected'], **d))
        try:
            pk, per_round = rnd.possible_keys(c.block)
            # (a design that reports an error returns [] before anything is counted or drawn)
            if pk != ex.executions and not (info['none'] == ex.executions == 1):
                viols.append(core.viol('candidate_count_differs_from_possible_keys', sig, design=dsw.brief(c.spec), possible_keys=pk,
                                       leaves=ex.executions))
        except Exception as e:
            pass
    if viols:
        return core.bad(viols, states=ex.executions, transitions=ex.choice_points + 1, nontrivial=nt, outcome=outcome)
    return core.ok(states=ex.executions, transitions=ex.choice_points + 1, validated=sum(acc.values()), nontrivial=nt, outcome=outcome,
                   max_depth=ex.max_depth)


def finalize(items_, results, tier):
    return {'designs_explored_with_deviation_bound_only': sum(1 for r in results if r.get('bounded'))}


sample_of = dsw.sample_of
