"""C12 - adder and population-count circuits compute sums.

E4: every builder x every width/saturation parameter up to the bound x every assignment of the input variables.
Drive: the real CNF methods on a CNF whose first variables are the inputs.
Oracle: exactly one satisfying extension per input assignment; output bits equal the binary sum; for saturation
with s bits: low s-1 bits = sum mod 2^(s-1), top bit = [sum >= 2^(s-1)] (the representation assert_k_of_n and
_inequality_assertion rely on).
"""
import itertools
from vt import core, sat

PROP = 'C12'
RULE = ('half/full/saturate adder (with and without carry-in), ripple_carry widths 1..W, ripple_saturate widths w<=s<=S, '
        'pop_count n=1..N x saturate_at 0..S; all input assignments, all satisfying extensions enumerated; wide pop counts (n up to 66/130) over '
        'all assignments within Hamming distance 1/2 of all-false/all-true; all two-call pop_count histories on one CNF object (n<=4/6, s1,s2<=4, same/prefix/reversed inputs). '
        'Non-trivial = circuit with >=2 distinct output values over its inputs.')
ASSUMPTIONS = ['pycryptosat as SAT oracle (truth-table cross-check when <=16 variables)',
               'saturating representation as stated in the module docstring (derived from how assert_k_of_n compares)']
BUDGET_S = {'quick': 120, 'thorough': 900}


def items(tier, seed):
    W, S, N = (4, 5, 8) if tier == 'quick' else (5, 6, 11)
    out = [{'fn': 'half_adder'}, {'fn': 'full_adder', 'cin': True}, {'fn': 'full_adder', 'cin': False},
           {'fn': 'saturate_adder', 'cin': True}, {'fn': 'saturate_adder', 'cin': False}]
    for w in range(1, W + 1):
        out.append({'fn': 'ripple_carry', 'w': w})
    for w in range(1, W + 1):
        for s in range(w, S + 1):
            out.append({'fn': 'ripple_saturate', 'w': w, 's': s})
    for n in range(1, N + 1):
        for s in range(0, S + 1):
            out.append({'fn': 'pop_count', 'n': n, 's': s})
    # pop_count on inputs that are not the first variables (gapped numbering)
    for n in (2, 3, 5):
        for s in (0, 2, 3):
            out.append({'fn': 'pop_count', 'n': n, 's': s, 'gapped': True})
    # wide pop counts (padding to the next power of two, lengths around powers of two): all assignments within Hamming
    # distance D of all-false and of all-true (deviation-bounded; exhaustive inside the bound)
    wide = (12, 15, 16, 17, 31, 32, 33, 34, 63, 64, 65, 66) if tier == 'quick' else tuple(range(12, 70)) + (127, 128, 129, 130)
    for n in wide:
        for s in (0, 2, 3):
            out.append({'fn': 'pop_count', 'n': n, 's': s, 'dev': 1 if (tier == 'quick' or n > 40) else 2})
    # call histories on ONE CNF object: two pop counts over the same / overlapping inputs with different saturation
    NS = 4 if tier == 'quick' else 6
    for n in range(2, NS + 1):
        for s1 in range(0, 5):
            for s2 in range(0, 5):
                for second in ('same', 'prefix', 'reversed'):
                    out.append({'fn': 'pop_count_seq', 'n': n, 's1': s1, 's2': s2, 'second': second})
    return out


def assignments_within(ins, dev):
    n = len(ins)
    seen = set()
    for base in (False, True):
        for d in range(0, dev + 1):
            for flip in itertools.combinations(range(n), d):
                bits = [base] * n
                for i in flip:
                    bits[i] = not base
                t = tuple(bits)
                if t not in seen:
                    seen.add(t)
                    yield t


def bits_val(bits):  # MSB first
    v = 0
    for b in bits:
        v = 2 * v + (1 if b else 0)
    return v


def sat_repr(total, s, width):
    """expected MSB-first bit list of length `width` for value `total` under saturation at s bits (s==0: exact)."""
    if s == 0 or width < s:
        return [(total >> i) & 1 == 1 for i in reversed(range(width))], total < 2 ** width
    low = total % (2 ** (s - 1))
    top = total >= 2 ** (s - 1)
    return [top] + [(low >> i) & 1 == 1 for i in reversed(range(s - 1))], True


def run_item(item):
    from sweetpea._internal.core.cnf import CNF, Var
    fn = item['fn']
    sig = {'fn': fn}
    if fn == 'half_adder':
        ins = [1, 2]; cnf = CNF.from_fresh(2)
        c, s = cnf.half_adder(Var(1), Var(2)); outs = [c, s]
        spec = lambda a: [a[1] and a[2], a[1] != a[2]]
    elif fn == 'full_adder':
        if item['cin']:
            ins = [1, 2, 3]; cnf = CNF.from_fresh(3)
            c, s = cnf.full_adder(Var(1), Var(2), Var(3)); outs = [c, s]
            spec = lambda a: [a[1] + a[2] + a[3] >= 2, (a[1] + a[2] + a[3]) % 2 == 1]
        else:
            ins = [1, 2]; cnf = CNF.from_fresh(2)
            c, s = cnf.full_adder(Var(1), Var(2), None); outs = [c, s]
            spec = lambda a: [a[1] and a[2], a[1] != a[2]]
    elif fn == 'saturate_adder':
        if item['cin']:
            ins = [1, 2, 3]; cnf = CNF.from_fresh(3)
            outs = [cnf.saturate_adder(Var(1), Var(2), Var(3))]
            spec = lambda a: [a[1] or a[2] or a[3]]
        else:
            ins = [1, 2]; cnf = CNF.from_fresh(2)
            outs = [cnf.saturate_adder(Var(1), Var(2), None)]
            spec = lambda a: [a[1] or a[2]]
    elif fn == 'ripple_carry':
        w = item['w']; ins = list(range(1, 2 * w + 1)); cnf = CNF.from_fresh(2 * w)
        xs = [Var(i) for i in ins[:w]]; ys = [Var(i) for i in ins[w:]]
        c, ss = cnf.ripple_carry(xs, ys)          # ss is LSB first
        outs = [c] + list(reversed(ss))
        def spec(a, w=w):
            x = bits_val([a[i] for i in ins[:w]]); y = bits_val([a[i] for i in ins[w:]])
            return [((x + y) >> i) & 1 == 1 for i in reversed(range(w + 1))]
    elif fn == 'ripple_saturate':
        w, s = item['w'], item['s']; ins = list(range(1, 2 * w + 1)); cnf = CNF.from_fresh(2 * w)
        xs = [Var(i) for i in ins[:w]]; ys = [Var(i) for i in ins[w:]]
        outs = cnf.ripple_saturate(xs, ys, s)      # MSB first
        def spec(a, w=w, s=s):
            xb = [a[i] for i in ins[:w]]; yb = [a[i] for i in ins[w:]]
            if w < s:
                t = bits_val(xb) + bits_val(yb)
                return [(t >> i) & 1 == 1 for i in reversed(range(w + 1))]
            xl, yl = bits_val(xb[1:]), bits_val(yb[1:])
            top = xb[0] or yb[0] or (xl + yl >= 2 ** (s - 1))
            low = (xl + yl) % (2 ** (s - 1))
            return [top] + [(low >> i) & 1 == 1 for i in reversed(range(s - 1))]
    elif fn == 'pop_count_seq':
        return run_seq(item)
    elif fn == 'pop_count':
        n, s = item['n'], item['s']
        if item.get('gapped'):
            ins = [2 * i + 2 for i in range(n)]; cnf = CNF.from_fresh(2 * n + 1)
        else:
            ins = list(range(1, n + 1)); cnf = CNF.from_fresh(n)
        outs = cnf.pop_count([Var(i) for i in ins], s)   # MSB first
        width = len(outs)
        def spec(a, s=s, width=width):
            total = sum(1 for i in ins if a[i])
            exp, representable = sat_repr(total, s, width)
            if not representable:
                return None
            return exp
    else:
        raise core.HarnessError(fn)
    outs = [int(o) for o in outs]
    clauses = sat.cnf_to_lists(cnf)
    allv = sorted(set(sat.variables_of(clauses)) | set(outs))
    aux = [v for v in allv if v not in ins]
    small = len(allv) <= 16
    viols = []
    states = transitions = 0
    seen_out = set()
    space = assignments_within(ins, item['dev']) if item.get('dev') else itertools.product((False, True), repeat=len(ins))
    if item.get('dev'):
        sig = dict(sig, wide=True)
    for bits in space:
        a = dict(zip(ins, bits))
        assumptions = [v if b else -v for v, b in a.items()]
        models = sat.all_models(clauses, over=aux, assumptions=assumptions, limit=3)
        states += 1; transitions += len(models) + 1
        if small and min(3, sat.count_models_truth_table(clauses, assumptions)) != len(models):
            raise core.HarnessError('solver/truth table disagree %r' % item)
        if len(models) != 1:
            viols.append(core.viol('no_extension' if not models else 'extension_not_unique', sig, item=item,
                                   inputs={str(k): v for k, v in a.items()}, extensions=len(models)))
            continue
        val = dict(a)
        for l in models[0]:
            val[abs(l)] = l > 0
        got = [val[o] for o in outs]
        exp = spec(a)
        seen_out.add(tuple(got))
        if exp is None:
            viols.append(core.viol('output_too_narrow', sig, item=item, inputs={str(k): v for k, v in a.items()}))
        elif [bool(x) for x in exp] != got:
            viols.append(core.viol('wrong_sum', sig, item=item, inputs={str(k): v for k, v in a.items()},
                                   expected=[int(bool(x)) for x in exp], got=[int(x) for x in got]))
    outcome = [fn, len(outs), len(seen_out)]
    nontrivial = len(seen_out) >= 2
    if viols:
        first = {}
        for v in viols:
            first.setdefault(v['kind'], v)
        return core.bad(list(first.values()), states, transitions, 0, nontrivial, outcome)
    return core.ok(states, transitions, 0, nontrivial, outcome)


def run_seq(item):
    """Two pop_count calls on one CNF object; both results must be right under every input assignment."""
    from sweetpea._internal.core.cnf import CNF, Var
    n = item['n']
    ins = list(range(1, n + 1))
    second = {'same': ins, 'prefix': ins[:-1], 'reversed': list(reversed(ins))}[item['second']]
    cnf = CNF.from_fresh(n)
    calls = [(ins, item['s1']), (second, item['s2'])]
    outs = []
    for lst, s in calls:
        o = cnf.pop_count([Var(i) for i in lst], s)
        outs.append([int(x) for x in o])
    sig = {'fn': 'pop_count_seq', 'second': item['second']}
    clauses = sat.cnf_to_lists(cnf)
    allv = sorted(set(sat.variables_of(clauses)) | {v for o in outs for v in o})
    aux = [v for v in allv if v not in ins]
    viols = []
    states = transitions = 0
    seen_out = set()
    for bits in itertools.product((False, True), repeat=n):
        a = dict(zip(ins, bits))
        assumptions = [v if b else -v for v, b in a.items()]
        models = sat.all_models(clauses, over=aux, assumptions=assumptions, limit=3)
        states += 1; transitions += len(models) + 1
        if len(models) != 1:
            viols.append(core.viol('no_extension' if not models else 'extension_not_unique', sig, item=item,
                                   inputs={str(k): v for k, v in a.items()}, extensions=len(models)))
            continue
        val = dict(a)
        for l in models[0]:
            val[abs(l)] = l > 0
        for ci, ((lst, s), o) in enumerate(zip(calls, outs)):
            total = sum(1 for i in lst if a[i])
            exp, representable = sat_repr(total, s, len(o))
            got = [val[v] for v in o]
            seen_out.add((ci, tuple(got)))
            if not representable:
                viols.append(core.viol('output_too_narrow', dict(sig, call=ci), item=item, inputs={str(k): v for k, v in a.items()}))
            elif [bool(x) for x in exp] != got:
                viols.append(core.viol('wrong_sum', dict(sig, call=ci), item=item, inputs={str(k): v for k, v in a.items()},
                                       expected=[int(bool(x)) for x in exp], got=[int(x) for x in got]))
    outcome = ['pop_count_seq', [len(o) for o in outs], len(seen_out)]
    if viols:
        first = {}
        for v in viols:
            first.setdefault(core.canon(v['sig']), v)
        return core.bad(list(first.values()), states, transitions, 0, True, outcome)
    return core.ok(states, transitions, 0, len(seen_out) >= 3, outcome)


def sample_of(item, res):
    return {'circuit': item, 'input_assignments': res['states'], 'distinct_outputs': res['outcome'][2]}
