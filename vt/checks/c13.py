"""C13 - combinatorial unranking functions are bijections with correct counts.

E4: every parameter tuple up to the bound x every index 0..N-1; image compared with the brute-force set of
arrangements (itertools); N compared with the library's counting function and with the brute-force count.
E3: operation histories on one shared PermutationMemo (count / unrank with varying prefix length), all histories up
to the depth bound, state = memo contents; every return value must equal the fresh-memo value.
"""
import itertools
from math import factorial
from vt import core

PROP = 'C13'
RULE = ('extract_components sizes in [1..4]^<=3; compute_jth_combination l,n<=4; ..._without_replacement n<=7; '
        'permutation prefixes n<=6; permutations/prefixes with uniform copies q<=4,m<=3 and per-element counters in '
        '[0..3]^q (q<=3 quick, <=4 thorough), every prefix length, every index; memo histories depth<=3; n_choose_m for every n<=80 (thorough 140) and m, and '
        'count_permutations_with_copies q,m<=6, against exact integer arithmetic (spaces too large to enumerate: counts only, plus unranking at '
        'both ends and the middle). '
        'Non-trivial = N>=2. The "larger random tuples" of the quantifier are sampling and not part of this check.')
ASSUMPTIONS = ['itertools-based brute-force definitions of each arrangement kind']
BUDGET_S = {'quick': 120, 'thorough': 900}


def items(tier, seed):
    th = tier == 'thorough'
    out = []
    for r in range(1, 4):
        for sizes in itertools.product(range(1, 5), repeat=r):
            out.append({'fn': 'extract_components', 'sizes': list(sizes)})
    for l in range(0, 5):
        for n in range(1, 5):
            out.append({'fn': 'combination', 'l': l, 'n': n})
    for n in range(1, 8 if not th else 10):
        for m in range(0, n + 1):
            out.append({'fn': 'comb_wo_repl', 'n': n, 'm': m})
    for n in range(1, 7 if not th else 8):
        for m in range(0, n + 1):
            out.append({'fn': 'perm_prefix', 'n': n, 'm': m})
    for q in range(1, 5):
        for m in range(1, 4):
            if q * m > (8 if not th else 10):
                continue
            out.append({'fn': 'perm_copies', 'q': q, 'm': m})
            for first_n in range(1, q * m + 1):
                out.append({'fn': 'prefix_copies', 'q': q, 'm': m, 'first_n': first_n})
    for q in range(1, 4 if not th else 5):
        for counters in itertools.product(range(0, 4), repeat=q):
            tot = sum(counters)
            if tot == 0 or tot > (7 if not th else 9):
                continue
            out.append({'fn': 'perm_varying', 'q': q, 'counters': list(counters)})
            for first_n in range(1, tot + 1):
                out.append({'fn': 'prefix_copies', 'q': q, 'm': list(counters), 'first_n': first_n})
    # counts beyond what can be enumerated: exact integer arithmetic against Pascal's triangle / the multinomial formula
    for lo in range(0, 81 if not th else 141, 20):
        out.append({'fn': 'counts_exact', 'lo': lo, 'hi': lo + 20})
    for q, m in [(2, 1), (2, 2), (3, 1), (3, 2), (2, [2, 1]), (3, [1, 2, 1]), (3, [2, 0, 2])] + ([(2, 3), (4, 1), (3, [3, 1, 2])] if th else []):
        out.append({'fn': 'memo_histories', 'q': q, 'm': m, 'depth': 3})
    return out


def multiset_prefixes(caps, first_n):
    """all sequences of length first_n over range(len(caps)) using symbol i at most caps[i] times"""
    q = len(caps)
    out = set()
    for seq in itertools.product(range(q), repeat=first_n):
        if all(seq.count(i) <= caps[i] for i in range(q)):
            out.add(seq)
    return out


def check_bijection(sig, item, N_lib, unrank, expected, states_tr):
    viols = []
    N = len(expected)
    if N_lib is not None and N_lib != N:
        viols.append(core.viol('wrong_count', sig, item=item, library=N_lib, brute_force=N))
    seen = {}
    for j in range(N):
        try:
            v = unrank(j)
        except Exception as e:
            viols.append(core.viol('exception', dict(sig, exc=type(e).__name__), item=item, j=j, message=str(e)[:200]))
            break
        v = tuple(v)
        states_tr[0] += 1; states_tr[1] += 1
        if v not in expected:
            viols.append(core.viol('not_an_arrangement', sig, item=item, j=j, value=list(v)))
            break
        if v in seen:
            viols.append(core.viol('not_injective', sig, item=item, j=j, same_as=seen[v], value=list(v)))
            break
        seen[v] = j
    else:
        if len(seen) != N:
            viols.append(core.viol('not_surjective', sig, item=item))
    return viols


def run_item(item):
    from sweetpea._internal import combinatorics as C
    fn = item['fn']
    sig = {'fn': fn}
    st = [0, 0]
    if fn == 'counts_exact':
        viols = []
        row = [1]
        for n in range(0, item['hi']):
            if n:
                row = [1] + [row[i] + row[i + 1] for i in range(len(row) - 1)] + [1]
            if n < item['lo']:
                continue
            for m in range(0, n + 1):
                st[0] += 1
                got = C.n_choose_m(n, m)
                if got != row[m] or not isinstance(got, int):
                    viols.append(core.viol('count_wrong', dict(sig, which='n_choose_m'), n=n, m=m, got=str(got), expected=str(row[m])))
                    break
                if m and 30 <= n and m in (1, n // 2, n - 1):
                    # unranking at the ends and in the middle of a space too large to enumerate: well-formed and pairwise distinct
                    N = row[m]
                    seen = {}
                    for j in sorted(j for j in {0, 1, N // 2, N // 2 + 1, N - 2, N - 1} if 0 <= j < N):
                        st[1] += 1
                        c = C.compute_jth_combination_without_replacement(n, m, j)
                        if len(c) != m or len(set(c)) != m or any(not (0 <= x < n) for x in c) or tuple(sorted(c)) in seen:
                            viols.append(core.viol('unranked_combination_malformed', dict(sig, which='comb_wo_repl'), n=n, m=m, j=str(j), got=list(c),
                                                   same_as=str(seen.get(tuple(sorted(c))))))
                            break
                        seen[tuple(sorted(c))] = j
        for q in range(1, 7):
            for m in range(1, 7):
                if not (item['lo'] <= q * m < item['hi']):
                    continue
                st[0] += 1
                exp = factorial(q * m) // (factorial(m) ** q)
                got = C.count_permutations_with_copies(q, m, q * m)
                if got != exp:
                    viols.append(core.viol('count_wrong', dict(sig, which='permutations_with_copies'), q=q, m=m, got=str(got), expected=str(exp)))
        if viols:
            return core.bad(viols[:4], states=st[0], transitions=st[1], nontrivial=True, outcome=[fn, item['lo']])
        return core.ok(states=st[0], transitions=st[1], nontrivial=True, outcome=[fn, item['lo'], st[0]])
    if fn == 'extract_components':
        sizes = item['sizes']
        exp = set(itertools.product(*[range(s) for s in sizes]))
        viols = check_bijection(sig, item, None, lambda j: C.extract_components(sizes, j), exp, st)
    elif fn == 'combination':
        l, n = item['l'], item['n']
        exp = set(itertools.product(range(n), repeat=l))
        viols = check_bijection(sig, item, None, lambda j: C.compute_jth_combination(l, n, j), exp, st)
    elif fn == 'comb_wo_repl':
        n, m = item['n'], item['m']
        exp = set(tuple(sorted(c, reverse=True)) for c in itertools.combinations(range(n), m))
        viols = check_bijection(sig, item, C.n_choose_m(n, m),
                                lambda j: C.compute_jth_combination_without_replacement(n, m, j), exp, st)
    elif fn == 'perm_prefix':
        n, m = item['n'], item['m']
        exp = set(itertools.permutations(range(n), m))
        viols = check_bijection(sig, item, None, lambda j: C.compute_jth_permutation_prefix(n, m, j), exp, st)
    elif fn == 'perm_copies':
        q, m = item['q'], item['m']
        exp = multiset_prefixes([m] * q, q * m)
        viols = check_bijection(sig, item, C.count_permutations_with_copies(q, m, q * m),
                                lambda j: C.construct_permutation_with_copies(j, q, m), exp, st)
    elif fn == 'perm_varying':
        q, cs = item['q'], item['counters']
        exp = multiset_prefixes(cs, sum(cs))
        viols = check_bijection(sig, item, C.count_permutations_with_varying_copies(q, list(cs), sum(cs)),
                                lambda j: C.construct_permutation_with_varying_copies(j, q, list(cs)), exp, st)
        if list(cs) != item['counters']:
            viols.append(core.viol('argument_mutated', sig, item=item))
    elif fn == 'prefix_copies':
        q, m, first_n = item['q'], item['m'], item['first_n']
        caps = list(m) if isinstance(m, list) else [m] * q
        exp = multiset_prefixes(caps, first_n)
        marg = (lambda: list(m)) if isinstance(m, list) else (lambda: m)
        n1 = C.count_prefixes_of_permutations_with_copies(q, marg(), first_n, C.PermutationMemo())
        if isinstance(m, list):
            n2 = C.count_permutations_with_varying_copies(q, marg(), first_n)
        else:
            n2 = C.count_permutations_with_copies(q, m, first_n)
        viols = []
        if n1 != n2:
            viols.append(core.viol('counting_functions_disagree', sig, item=item, a=n1, b=n2))
        memo = C.PermutationMemo()   # one memo across all indices, as the sampler uses it
        viols += check_bijection(sig, item, n1,
                                 lambda j: C.compute_jth_prefix_of_permutations_with_copies(q, marg(), first_n, j, memo), exp, st)
        fresh = check_bijection(sig, item, n1,
                                lambda j: C.compute_jth_prefix_of_permutations_with_copies(q, marg(), first_n, j, C.PermutationMemo()),
                                exp, st)
        viols += [v for v in fresh if v['kind'] not in {x['kind'] for x in viols}]
    elif fn == 'memo_histories':
        return memo_histories(item)
    else:
        raise core.HarnessError(fn)
    N = len(exp)
    outcome = [fn, N]
    if viols:
        return core.bad(viols, st[0], st[1], 0, N >= 2, outcome)
    return core.ok(st[0], st[1], 0, N >= 2, outcome)


def memo_histories(item):
    """E3: all histories of depth<=D of ops on one shared memo; state = memo contents."""
    from sweetpea._internal import combinatorics as C
    q, m, D = item['q'], item['m'], item['depth']
    caps = list(m) if isinstance(m, list) else [m] * q
    tot = sum(caps)
    marg = (lambda: list(m)) if isinstance(m, list) else (lambda: m)
    ops = []
    ref = {}
    for first_n in range(1, tot + 1):
        N = len(multiset_prefixes(caps, first_n))
        ops.append(('count', first_n, None))
        ref[('count', first_n, None)] = N
        for j in sorted({0, N // 2, N - 1}):
            op = ('unrank', first_n, j)
            ops.append(op)
            ref[op] = tuple(C.compute_jth_prefix_of_permutations_with_copies(q, marg(), first_n, j, C.PermutationMemo()))
    sig = {'fn': 'memo_histories'}

    def apply(memo, op):
        if op[0] == 'count':
            return C.count_prefixes_of_permutations_with_copies(q, marg(), op[1], memo)
        return tuple(C.compute_jth_prefix_of_permutations_with_copies(q, marg(), op[1], op[2], memo))

    def build(hist):
        memo = C.PermutationMemo()
        for op in hist:
            apply(memo, op)
        return memo

    canon = lambda memo: tuple(sorted(memo.memo.items()))
    seen = {canon(C.PermutationMemo()): ()}
    frontier = [()]
    transitions = 0
    histories = 0
    viols = []
    for depth in range(D):
        nxt = []
        for hist in frontier:
            for op in ops:
                memo = build(hist)         # fresh real object, history replayed
                try:
                    got = apply(memo, op)
                except Exception as e:
                    viols.append(core.viol('exception', dict(sig, exc=type(e).__name__), item=item, history=[list(h) for h in hist], op=list(op)))
                    continue
                transitions += 1
                if got != ref[op]:
                    viols.append(core.viol('memo_changes_result', sig, item=item, history=[list(h) for h in hist], op=list(op),
                                           got=got, fresh_memo=ref[op]))
                k = canon(memo)
                if k not in seen:
                    seen[k] = hist + (op,)
                    nxt.append(hist + (op,))
        frontier = nxt
    # un-deduplicated: all histories of depth 2 over the op alphabet (a too-coarse state hash cannot hide these)
    for h in itertools.product(ops, repeat=2):
        memo = C.PermutationMemo()
        histories += 1
        for op in h:
            got = apply(memo, op)
            transitions += 1
            if got != ref[op]:
                viols.append(core.viol('memo_changes_result', sig, item=item, history=[list(x) for x in h], op=list(op)))
    outcome = ['memo', len(seen)]
    if viols:
        return core.bad(viols[:3], len(seen), transitions, 0, True, outcome)
    return core.ok(len(seen), transitions, 0, len(seen) >= 2, outcome, undeduplicated_histories=histories)


def sample_of(item, res):
    return {'case': item, 'indices_or_states': res['states']}
