"""C26 - block constraints apply per repetition; combinator constraints apply globally.

E1 over constraint placements: every constraint class x {Repeat (2-3 repetitions, whole and partial last repetition),
Merge of one block in REPEAT mode, Nest} x inner blocks with and without preamble, the constraint placed (i) on the inner
block and (ii) on the combinator.  Both placements are built from fresh objects and exhausted through IterateSATGen and
RandomGen; each must equal the reference set computed with the documented windows (a block's constraint applies separately
within each repetition of that block, its window including the preceding preamble trials; a combinator's constraint applies
across the whole sequence, including across repetition boundaries).  Pairs whose two placements have DIFFERENT reference
sets are counted (distinguishing designs), so the check cannot pass vacuously.
"""
from collections import Counter
from vt import core, dsw, gen

PROP = 'C26'
RULE = ('inner blocks (with/without preamble, with a weighted uncrossed factor) x constraint menu (AtMostKInARow, AtLeastKInARow, ExactlyKInARow, ExactlyK, Pin first/last; '
        'level and whole-factor forms) x combinators (Repeat to 2 and 3 repetitions, partial last repetition per A3, Merge, Nest) x 2 placements; '
        'states = sequences compared; non-trivial = the two placements of the pair have different reference sets.')
ASSUMPTIONS = ['reference model vt/ref.py (documented windows; A3/A4 exclusions of DESIGN.md section 3)']
BUDGET_S = {'quick': 90, 'thorough': 400}
REF_LIMIT = {'quick': 1200, 'thorough': 2500}


def menu(tier):
    m = []
    for fn, lv in (('B', 'b0'), ('A', 'a0')):
        m += [{'c': 'AtMostKInARow', 'k': 1, 'factor': fn, 'level': lv}, {'c': 'ExactlyK', 'k': 1, 'factor': fn, 'level': lv},
              {'c': 'ExactlyK', 'k': 2, 'factor': fn, 'level': lv}, {'c': 'AtLeastKInARow', 'k': 2, 'factor': fn, 'level': lv},
              {'c': 'ExactlyKInARow', 'k': 1, 'factor': fn, 'level': lv}, {'c': 'ExactlyKInARow', 'k': 2, 'factor': fn, 'level': lv},
              {'c': 'Pin', 'index': 0, 'factor': fn, 'level': lv},
              {'c': 'Pin', 'index': -1, 'factor': fn, 'level': lv}]
        if tier == 'thorough':
            m += [{'c': 'AtMostKInARow', 'k': 2, 'factor': fn, 'level': lv}, {'c': 'AtMostKInARow', 'k': 1, 'factor': fn, 'level': None},
                  {'c': 'ExactlyKInARow', 'k': 3, 'factor': fn, 'level': lv}, {'c': 'Pin', 'index': 1, 'factor': fn, 'level': lv}]
    return m


def items(tier, seed):
    A = gen.basic('A', 2); Bf = gen.basic('B', 2); O = gen.basic('O', 2)
    fm0 = {'A': A, 'B': Bf}
    TA = gen.window('TA', ['A'], fm0, 2, gen.same, kind='transition', start=1)
    Bw = gen.basic('B', 2, [2, 1])        # weighted and outside the crossing: constraints on it are rewritten to a hidden factor
    inners = [([A, Bf], ['A'], 2, 0), ([A, Bf], ['A', 'B'], 4, 0), ([A, Bf, TA], ['TA'], 2, 1), ([A, Bw], ['A'], 2, 0)]
    if tier == 'thorough':
        inners.append(([A, Bf, TA], ['B', 'TA'], 4, 1))
    out = []
    for factors, cr, size, pre in inners:
        names = [f['name'] for f in factors]
        cons_here = list(menu(tier))
        if 'TA' in names:
            # the same classes on the Transition factor itself (its variables are laid out per factor, not per trial)
            cons_here += [{'c': 'AtMostKInARow', 'k': 1, 'factor': 'TA', 'level': 'ta0'}, {'c': 'ExactlyK', 'k': 1, 'factor': 'TA', 'level': 'ta0'},
                          {'c': 'AtLeastKInARow', 'k': 2, 'factor': 'TA', 'level': 'ta1'}, {'c': 'Pin', 'index': -1, 'factor': 'TA', 'level': 'ta0'},
                          {'c': 'Pin', 'index': 1, 'factor': 'TA', 'level': 'ta1'}]
        for con in cons_here:
            combs = []
            for reps in (2, 3):
                if size * reps + pre <= 9:
                    combs.append(('repeat', {'k': pre + size * reps}, False))
            if size > 1 and con['c'] in ('AtMostKInARow',) or (con['c'] == 'Pin' and con['index'] >= 0):
                if pre + 2 * size + 1 <= 9 and size > 1:
                    combs.append(('repeat', {'k': pre + 2 * size + 1}, True))      # partial last repetition (A3)
            combs.append(('merge', {'k': pre + size * 2}, False))
            if pre == 0 and con['c'] not in ('ExactlyK',) or True:
                combs.append(('nest', None, False))
            for kind, mt, partial in combs:
                pair = []
                for place in ('inner', 'combinator'):
                    inner = gen.cross(names, cr, [con] if place == 'inner' else [])
                    outer_cons = [con] if place == 'combinator' else []
                    if kind == 'repeat':
                        b = {'op': 'repeat', 'block': inner, 'constraints': outer_cons + [{'c': 'MinimumTrials', 'k': mt['k']}]}
                        fs = factors
                    elif kind == 'merge':
                        b = {'op': 'merge', 'blocks': [inner], 'constraints': outer_cons + [{'c': 'MinimumTrials', 'k': mt['k']}], 'mode': 'repeat'}
                        fs = factors
                    else:
                        b = {'op': 'nest', 'outer': gen.cross(['O'], ['O']), 'inner': inner, 'constraints': outer_cons}
                        fs = [O] + factors
                    pair.append({'factors': fs, 'block': b})
                out.append({'pair': pair, 'tier': tier, 'seed': seed, 'comb': kind, 'partial': partial, 'con': con['c']})
    return out


def run_item(item):
    viols = []
    states = validated = 0
    refs = []
    for place, spec in zip(('inner', 'combinator'), item['pair']):
        c, sk = dsw.setup(spec, item['tier'], ref_limit=REF_LIMIT[item['tier']])
        if sk:
            refs.append(None)
            continue
        refs.append(c.ref.readings[0] if len(c.ref.readings) == 1 else None)
        v, st, va, skipped = dsw.exhaust_vs_ref(c, seed=item.get('seed', 0))
        for x in v:
            x['sig']['placement'] = place
            x['sig']['comb'] = item['comb']
            x['sig']['partial'] = item['partial']
        viols += v
        states += st
        validated += va
    distinguishing = refs[0] is not None and refs[1] is not None and refs[0] != refs[1]
    if all(r is None for r in refs) and not viols:
        return core.skip('both placements skipped (reference overflow / refusal)')
    outcome = [item['comb'], item['con'], distinguishing, states]
    if viols:
        return core.bad(viols, states=max(1, states), transitions=4, nontrivial=distinguishing, outcome=outcome)
    return core.ok(states=max(1, states), transitions=4, validated=validated, nontrivial=distinguishing, outcome=outcome,
                   distinguishing=distinguishing)


def finalize(items_, results, tier):
    return {'distinguishing_pairs': sum(1 for r in results if r.get('distinguishing'))}


def sample_of(item, res):
    return {'combinator': item['comb'], 'constraint': item['con'], 'placements': [p['block'] for p in item['pair']], 'explored': res.get('outcome')}
