"""Bounded-exhaustive generators of design specs (strata S1..S6, S9). Deterministic; simplest first.

Every generator yields JSON-able specs (see vt/ref.py) tagged with 'tag' = stratum name. VERIF_SEED only rotates
which slice of the larger strata a quick run appends after its fixed core.
"""
import itertools

# ---------------------------------------------------------------------------------------------
# factor pool

def basic(name, n, weights=None):
    weights = weights or [1] * n
    return {'name': name, 'levels': [[name.lower() + str(i), weights[i]] for i in range(n)]}


def names_of(f):
    return [l for l, _ in f['levels']]


def within(name, deps, fm, fn, nlev=2, else_idx=None, weights=None):
    lv = [[name.lower() + str(i), (weights or [1] * nlev)[i]] for i in range(nlev)]
    table = {}
    for k in itertools.product(*[names_of(fm[d]) for d in deps]):
        i = fn(k)
        if i is not None and i != else_idx:
            table['|'.join(k)] = [i]
    return {'name': name, 'deps': list(deps), 'width': 1, 'stride': 1, 'start': None, 'kind': 'within',
            'levels': lv, 'table': table, 'else': else_idx}


def window(name, deps, fm, width, fn, stride=1, start=None, kind='window', nlev=2, else_idx=None, weights=None,
           dep_none=False):
    """fn gets the key tuple (dependency-major, oldest first; '~' for no level)."""
    lv = [[name.lower() + str(i), (weights or [1] * nlev)[i]] for i in range(nlev)]
    per = []
    for d in deps:
        for j in range(width):
            vals = names_of(fm[d])
            if dep_none and j < width - 1:
                vals = vals + ['~']
            per.append(vals)
    table = {}
    for k in itertools.product(*per):
        i = fn(k)
        if i is not None and i != else_idx:
            table['|'.join(k)] = [i]
    return {'name': name, 'deps': list(deps), 'width': width, 'stride': stride, 'start': start, 'kind': kind,
            'levels': lv, 'table': table, 'else': else_idx}


def same(k):       # all entries equal (by level index suffix)
    return 0 if len(set(x[-1] for x in k)) == 1 else 1


def first_is_0(k):
    return 0 if k[0][-1] == '0' else 1


def repeat_last2(k):   # last two entries equal
    return 0 if k[-1] == k[-2] else 1


def cross(design, crossing, constraints=(), rcc=True):
    return {'op': 'cross', 'design': list(design), 'crossing': list(crossing), 'constraints': list(constraints), 'rcc': rcc}


def spec(factors, block, tag):
    return {'factors': factors, 'block': block, 'tag': tag}


# ---------------------------------------------------------------------------------------------
# constraint menus

def kinarow_menu(fname, f, ks=(1, 2, 3), whole=True):
    out = []
    l0 = names_of(f)[0]
    for k in ks:
        for cls in ('AtMostKInARow', 'AtLeastKInARow', 'ExactlyKInARow', 'ExactlyK'):
            out.append({'c': cls, 'k': k, 'factor': fname, 'level': l0})
    if whole:
        for cls in ('AtMostKInARow', 'AtLeastKInARow', 'ExactlyKInARow', 'ExactlyK'):
            out.append({'c': cls, 'k': 1 if cls != 'AtLeastKInARow' else 2, 'factor': fname, 'level': None})
    return out


def pin_menu(fname, f, idxs=(0, 1, -1, -2, 7, -8)):
    l0 = names_of(f)[0]
    return [{'c': 'Pin', 'index': i, 'factor': fname, 'level': l0} for i in idxs]


def crossing_size(fm, cr):
    n = 1
    for c in cr:
        n *= sum(w for _, w in fm[c]['levels'])
    return n


# ---------------------------------------------------------------------------------------------
# strata

def derived_menu(fm, rich=False):
    """(factor spec, is_complex) list over pool A,B."""
    out = [None]
    out.append(within('W', ['A', 'B'], fm, same))
    out.append(window('TA', ['A'], fm, 2, same, kind='transition', start=1))
    out.append(window('TB', ['B'], fm, 2, same, kind='transition', start=1))
    # direction-sensitive transition: only the step a0 -> a1 is "up"
    out.append(window('TX', ['A'], fm, 2, lambda k: 0 if (k[0][-1] == '0' and k[1][-1] == '1') else 1, kind='transition', start=1))
    if rich:
        out.append(within('W', ['A', 'B'], fm, lambda k: 0 if (k[0][-1] == '0' and k[1][-1] == '0') else 1, else_idx=1))
        out.append(window('TAB', ['A', 'B'], fm, 2, lambda k: 0 if (k[0] == k[1] and k[2] == k[3]) else 1, kind='transition', start=1))
    return out


def s1(tier):
    """single CrossBlock: every crossing subset (size<=2) of the design, 0-1 constraint from the full menu."""
    out = []
    variants = [(2, None), (3, None)]
    for nb, wA in variants:
        A = basic('A', 2, wA)
        B = basic('B', nb)
        fm0 = {'A': A, 'B': B}
        for D in derived_menu(fm0, rich=(tier == 'thorough')):
            factors = [A, B] + ([D] if D else [])
            fm = {f['name']: f for f in factors}
            names = [f['name'] for f in factors]
            crossings = [[n] for n in names] + [list(c) for c in itertools.combinations(names, 2)]
            for cr in crossings:
                # a derived factor crossed with one of its own dependencies makes the complete crossing unsatisfiable
                # for some tables; keep (documented error path) but only a few
                conss = [[]]
                for fn in names:
                    f = fm[fn]
                    for c in kinarow_menu(fn, f, ks=(1, 2, 3) if tier == 'quick' else (1, 2, 3, 5)):
                        conss.append([c])
                    for c in pin_menu(fn, f, idxs=(0, 1, -1, -2, 7, -8) if tier == 'thorough' else (0, -1, 1, 7)):
                        conss.append([c])
                size = crossing_size(fm, cr)
                # Pin exactly at / just past the end of the sequence (T = size, or size + 1 with a one-trial preamble)
                for fn in names:
                    for idx in (size, size + 1):
                        conss.append([{'c': 'Pin', 'index': idx, 'factor': fn, 'level': names_of(fm[fn])[0]}])
                for mt in (size + 1, size * 2 - 1, size * 2, size * 2 + 1):
                    if size < mt <= (9 if nb == 2 else 7):
                        conss.append([{'c': 'MinimumTrials', 'k': mt}])
                # Sequential on a basic crossed factor without preamble (A1)
                pre = any('deps' in fm[c] and fm[c]['width'] > 1 for c in cr)
                if not pre:
                    for fn in names:
                        if 'deps' not in fm[fn]:
                            conss.append([{'c': 'Sequential', 'factor': fn}])
                if nb == 2 and not pre:
                    conss.append([{'c': 'LatinSquare', 'factors': ['A', 'B']}])
                for cs in conss:
                    out.append(spec(factors, cross(names, cr, cs), 'S1'))
    return out


def s1_latin3(tier):
    """LatinSquare over two three-level factors (A2: two readings for the diagonal orientation)"""
    if tier != 'thorough':
        return []          # the reference enumeration alone takes tens of seconds
    C = basic('C', 3)
    E = basic('E', 3)
    out = [spec([C, E], cross(['C', 'E'], ['C', 'E'], [{'c': 'LatinSquare', 'factors': ['C', 'E']}]), 'S1')]
    return out


def s1_numeric(tier):
    """level names that are not strings (the documentation allows any value): 0 and 200, False/True - falsy names included"""
    out = []
    B = basic('B', 2)
    for lv in ([0, 200], [False, True], [0.0, 1.5]):
        A = {'name': 'A', 'levels': [[lv[0], 1], [lv[1], 1]]}
        for cr in (['A'], ['A', 'B'], ['B']):
            for cs in ([], [{'c': 'AtMostKInARow', 'k': 1, 'factor': 'A', 'level': lv[0]}], [{'c': 'Pin', 'index': 0, 'factor': 'A', 'level': lv[0]}],
                       [{'c': 'ExactlyK', 'k': 1, 'factor': 'A', 'level': lv[0]}], [{'c': 'AtLeastKInARow', 'k': 2, 'factor': 'A', 'level': lv[0]}],
                       [{'c': 'MinimumTrials', 'k': 3}]):
                out.append(spec([A, B], cross(['A', 'B'], cr, cs), 'S1n'))
            if 'A' in cr:
                out.append(spec([A, B], cross(['A', 'B'], cr, [{'c': 'Exclude', 'factor': 'A', 'level': lv[0]}], False), 'S1n'))
    return out


def s1_exclude(tier):
    """Exclude with rcc both ways; targets restricted per A6/A11."""
    out = []
    A = basic('A', 2)
    for nb in (2, 3):
        B = basic('B', nb)
        fm0 = {'A': A, 'B': B}
        for D in derived_menu(fm0):
            factors = [A, B] + ([D] if D else [])
            fm = {f['name']: f for f in factors}
            names = [f['name'] for f in factors]
            crossings = [[n] for n in names] + [list(c) for c in itertools.combinations(names, 2)]
            for cr in crossings:
                used_by_crossed = set()
                for c in cr:
                    if 'deps' in fm[c]:
                        used_by_crossed |= set(fm[c]['deps'])
                for fn in names:
                    f = fm[fn]
                    complex_ = 'deps' in f and f['width'] > 1
                    if complex_ and fn in cr:
                        continue            # A6
                    if fn not in cr and fn in used_by_crossed:
                        continue            # A11
                    if 'deps' in f and fn not in cr and any(d in cr or d in used_by_crossed for d in f['deps']) and False:
                        continue
                    for lv in names_of(f)[:2]:
                        for rcc in (True, False):
                            out.append(spec(factors, cross(names, cr, [{'c': 'Exclude', 'factor': fn, 'level': lv}], rcc), 'S1x'))
    return out


def s1_exclude_a11(tier):
    """A11 shapes (Exclude of a level of an uncrossed factor that a crossed derived factor depends on): the documentation does not
    determine the crossing size, so these designs are used only by the oracle-free checks C07 and C08."""
    out = []
    A = basic('A', 2)
    for nb in (2, 3):
        B = basic('B', nb)
        fm0 = {'A': A, 'B': B}
        for D in derived_menu(fm0)[1:]:
            factors = [A, B, D]
            fm = {f['name']: f for f in factors}
            names = [f['name'] for f in factors]
            for cr in ([D['name']], ['A', D['name']], ['B', D['name']]):
                for fn in D['deps']:
                    if fn in cr:
                        continue
                    for lv in names_of(fm[fn])[:2]:
                        for rcc in (True, False):
                            for extra in ([], [{'c': 'MinimumTrials', 'k': crossing_size(fm, cr) + 1}]):
                                out.append(spec(factors, cross(names, cr, [{'c': 'Exclude', 'factor': fn, 'level': lv}] + extra, rcc), 'S1xa'))
    return out


def s1_pairs(tier):
    """pairs of constraints from a reduced menu (each single constraint combined with a MinimumTrials that leaves a partial last
    pass, and a few pairs of two ordinary constraints)"""
    out = []
    A = basic('A', 2)
    for nb in (2, 3):
        B = basic('B', nb)
        fm0 = {'A': A, 'B': B}
        for D in derived_menu(fm0)[:3]:
            factors = [A, B] + ([D] if D else [])
            fm = {f['name']: f for f in factors}
            names = [f['name'] for f in factors]
            for cr in (['A'], ['A', 'B']) + ((['B', D['name']],) if D else ()):
                size = crossing_size(fm, cr)
                singles = []
                for fn in names:
                    l0 = names_of(fm[fn])[0]
                    singles += [{'c': 'AtMostKInARow', 'k': 1, 'factor': fn, 'level': l0}, {'c': 'ExactlyK', 'k': 2, 'factor': fn, 'level': l0},
                                {'c': 'Pin', 'index': -1, 'factor': fn, 'level': l0}]
                    if 'deps' not in fm[fn] or fm[fn]['width'] == 1:
                        if not (fn not in cr and any(fn in fm[c].get('deps', []) for c in cr)):      # A11
                            singles.append({'c': 'Exclude', 'factor': fn, 'level': names_of(fm[fn])[-1]})
                for c1 in singles:
                    rcc = c1['c'] != 'Exclude'
                    for mt in (size + 1, 2 * size - 1):
                        if size < mt <= 7:
                            out.append(spec(factors, cross(names, cr, [c1, {'c': 'MinimumTrials', 'k': mt}], rcc), 'S1p'))
                if tier == 'thorough' or nb == 2:
                    for c1, c2 in itertools.combinations(singles[:6], 2):
                        if c1['c'] == 'Exclude' or c2['c'] == 'Exclude':
                            continue
                        out.append(spec(factors, cross(names, cr, [c1, c2]), 'S1p'))
    return out


def s2(tier):
    """weights: level weights on crossed / uncrossed basic factors, weighted derived levels."""
    out = []
    for wA, wB in (([2, 1], None), (None, [1, 2]), ([2, 1], [1, 2]), ([3, 1], None)):
        A = basic('A', 2, wA)
        B = basic('B', 2, wB)
        fm0 = {'A': A, 'B': B}
        dm = [None, within('W', ['A', 'B'], fm0, same), window('TA', ['A'], fm0, 2, same, kind='transition', start=1),
              within('W', ['A', 'B'], fm0, same, weights=[2, 1]), within('W', ['A', 'B'], fm0, same, weights=[1, 2]),
              window('TA', ['A'], fm0, 2, same, kind='transition', start=1, weights=[1, 2])]
        for D in dm:
            factors = [A, B] + ([D] if D else [])
            fm = {f['name']: f for f in factors}
            names = [f['name'] for f in factors]
            crossings = [[n] for n in names] + [list(c) for c in itertools.combinations(names, 2)]
            for cr in crossings:
                size = crossing_size(fm, cr)
                if size > 9:
                    continue
                conss = [[]]
                for fn in names:
                    conss.append([{'c': 'AtMostKInARow', 'k': 1, 'factor': fn, 'level': names_of(fm[fn])[0]}])
                    conss.append([{'c': 'ExactlyK', 'k': 2, 'factor': fn, 'level': names_of(fm[fn])[0]}])
                    conss.append([{'c': 'Pin', 'index': 0, 'factor': fn, 'level': names_of(fm[fn])[0]}])
                    if tier == 'thorough':
                        conss.append([{'c': 'AtMostKInARow', 'k': 1, 'factor': fn, 'level': None}])
                        conss.append([{'c': 'AtLeastKInARow', 'k': 2, 'factor': fn, 'level': names_of(fm[fn])[1]}])
                for mt in sorted(set([size + 1, size + 2, 2 * size - 1, 2 * size + 1])):
                    if size < mt <= 8:
                        conss.append([{'c': 'MinimumTrials', 'k': mt}])
                for cs in conss:
                    out.append(spec(factors, cross(names, cr, cs), 'S2'))
                # the same weighted crossing repeated, with whole and partial last repetition
                if size <= 3:
                    for mt in (size + 1, size + 2, 2 * size, 2 * size + 1, 2 * size + 2):
                        out.append(spec(factors, {'op': 'repeat', 'block': cross(names, cr, []),
                                                  'constraints': [{'c': 'MinimumTrials', 'k': mt}]}, 'S2'))
    return out


def s2_small(tier):
    """weighted crossings without bystander factors, so that longer sequences (partial trailing chunks of a scaled
    crossing, several repetitions) stay within the reference limits"""
    out = []
    for w in ([2, 1], [1, 2], [3, 1], [2, 2]):
        A = basic('A', 2, w)
        size = sum(w)
        for mt in range(size + 1, min(3 * size, 9) + 1):
            out.append(spec([A], cross(['A'], ['A'], [{'c': 'MinimumTrials', 'k': mt}]), 'S2'))
            out.append(spec([A], {'op': 'repeat', 'block': cross(['A'], ['A'], []), 'constraints': [{'c': 'MinimumTrials', 'k': mt}]}, 'S2'))
        for cs in ([{'c': 'AtMostKInARow', 'k': 1, 'factor': 'A', 'level': 'a0'}], [{'c': 'ExactlyK', 'k': 2, 'factor': 'A', 'level': 'a0'}],
                   [{'c': 'AtMostKInARow', 'k': 2, 'factor': 'A', 'level': None}]):
            out.append(spec([A], cross(['A'], ['A'], cs), 'S2'))
            out.append(spec([A], cross(['A'], ['A'], cs + [{'c': 'MinimumTrials', 'k': size + 2}]), 'S2'))
        # the weighted factor OUTSIDE the crossing (copy-expanded), with whole-factor and single-level run-length constraints on it
        Bx = basic('B', 3)
        for cs in ([{'c': 'AtMostKInARow', 'k': 1, 'factor': 'A', 'level': None}], [{'c': 'AtMostKInARow', 'k': 1, 'factor': 'A', 'level': 'a0'}],
                   [{'c': 'AtLeastKInARow', 'k': 2, 'factor': 'A', 'level': None}], [{'c': 'ExactlyK', 'k': 1, 'factor': 'A', 'level': 'a1'}],
                   [{'c': 'Pin', 'index': 0, 'factor': 'A', 'level': 'a0'}]):
            out.append(spec([A, Bx], cross(['A', 'B'], ['B'], cs), 'S2'))
    # a weighted crossed factor together with an Exclude / an impossible combination that removes weighted combinations
    Aw2 = basic('A', 2, [2, 1])
    B3 = basic('B', 3)
    fmx = {'A': Aw2, 'B': B3}
    Wx = within('W', ['A', 'B'], fmx, same)
    for rcc in (False, True):
        for ex in ([{'c': 'Exclude', 'factor': 'B', 'level': 'b2'}], [{'c': 'Exclude', 'factor': 'A', 'level': 'a0'}],
                   [{'c': 'Exclude', 'factor': 'B', 'level': 'b2'}, {'c': 'MinimumTrials', 'k': 7}]):
            out.append(spec([Aw2, B3], cross(['A', 'B'], ['A', 'B'], ex, rcc), 'S2'))
        out.append(spec([Aw2, B3, Wx], cross(['A', 'B', 'W'], ['A', 'W'], [], rcc), 'S2'))
        out.append(spec([Aw2, B3, Wx], cross(['A', 'B', 'W'], ['A', 'W'], [{'c': 'Exclude', 'factor': 'W', 'level': 'w1'}], rcc), 'S2'))
    # weighted levels of a crossed within-trial factor whose levels have DIFFERENT numbers of source completions (1 x 'same', 2 x 'different'
    # per value of A), so that copies per combination and options per combination are both non-uniform, on a small sequence space
    A2 = basic('A', 2)
    fmy = {'A': A2, 'B': B3}
    for wts in ([1, 2], [2, 1]):
        Wy = within('W', ['A', 'B'], fmy, same, weights=wts)
        out.append(spec([A2, B3, Wy], cross(['A', 'B', 'W'], ['W'], []), 'S2'))
        out.append(spec([A2, B3, Wy], cross(['A', 'B', 'W'], ['W'], [{'c': 'MinimumTrials', 'k': 4}]), 'S2'))
    # a hidden weight factor (weighted, outside the crossing) under Merge / Repeat / MultiCrossBlock
    Aw = basic('A', 2, [2, 1])
    Bu = basic('B', 2)
    inner = cross(['A', 'B'], ['B'], [])
    out.append(spec([Aw, Bu], {'op': 'merge', 'blocks': [inner], 'constraints': [], 'mode': 'repeat'}, 'S2'))
    out.append(spec([Aw, Bu], {'op': 'merge', 'blocks': [inner], 'constraints': [{'c': 'MinimumTrials', 'k': 4}], 'mode': 'repeat'}, 'S2'))
    out.append(spec([Aw, Bu], {'op': 'repeat', 'block': inner, 'constraints': [{'c': 'MinimumTrials', 'k': 4}]}, 'S2'))
    out.append(spec([Aw, Bu], {'op': 'merge', 'blocks': [inner, cross(['A', 'B'], ['B'], [{'c': 'AtMostKInARow', 'k': 1, 'factor': 'A', 'level': 'a1'}])],
                               'constraints': [], 'mode': 'weight'}, 'S2'))
    # two weighted crossed factors
    A = basic('A', 2, [2, 1])
    B = basic('B', 2, [1, 2])
    for mt in (None, 10, 11):
        out.append(spec([A, B], cross(['A', 'B'], ['A', 'B'], [{'c': 'MinimumTrials', 'k': mt}] if mt else []), 'S2'))
    # a three-level weighted factor
    C = basic('C', 3, [2, 1, 1])
    for mt in (None, 5, 6, 7):
        out.append(spec([C], cross(['C'], ['C'], [{'c': 'MinimumTrials', 'k': mt}] if mt else []), 'S2'))
    return out


def s3(tier):
    """window geometry: width 2-3, stride 1-2, start None/early/late, derived-of-derived; in and out of the crossing."""
    out = []
    A = basic('A', 2)
    B = basic('B', 2)
    fm0 = {'A': A, 'B': B}
    wins = []
    for width in (2, 3):
        for stride in (1, 2):
            for start in (None, 0, width, width + 1) + ((1,) if width > 2 else ()):
                if start in (0, 1) and width > 2:
                    # A8: early start with width 3 only with an ElseLevel; two tables: one ignores and one reads the oldest
                    # (possibly missing) input
                    wins.append(window('N', ['A'], fm0, width, lambda k: 0 if (k[-1] == k[-2] and '~' not in k) else None,
                                       stride=stride, start=start, else_idx=1, dep_none=True))
                    wins.append(window('N', ['A'], fm0, width, lambda k: 0 if (k[0] == '~' or k[0] == k[-1]) else None,
                                       stride=stride, start=start, else_idx=1, dep_none=True))
                    continue
                wins.append(window('N', ['A'], fm0, width, repeat_last2, stride=stride, start=start, dep_none=(start == 0)))
    # derived of derived
    W = within('W', ['A', 'B'], fm0, same)
    fmw = dict(fm0, W=W)
    dd = [
        ([W, within('V', ['W', 'A'], fmw, same)], 'V'),
        ([W, window('N', ['W'], fmw, 2, same, kind='transition', start=1)], 'N'),
        ([W, window('N', ['W'], fmw, 2, same, kind='window', start=None)], 'N'),
    ]
    TA = window('TA', ['A'], fm0, 2, same, kind='transition', start=1)
    fmt = dict(fm0, TA=TA)
    dd.append(([TA, window('N', ['TA'], fmt, 2, same, kind='window', start=None)], 'N'))
    dd.append(([TA, within('V', ['TA', 'B'], fmt, same)], 'V'))
    # a width-2 window over a plain factor AND a complex-window factor (their variables are laid out differently), both orders
    mix = lambda k: 0 if (k[1] == k[0]) == (k[3] == k[2]) else 1
    dd.append(([TA, window('N', ['B', 'TA'], fmt, 2, mix, kind='window', start=None)], 'N'))
    dd.append(([TA, window('N', ['TA', 'B'], fmt, 2, mix, kind='window', start=None)], 'N'))
    # two independent complex-window factors in one design (one of them is implied in most placements)
    TB = window('TB', ['B'], fm0, 2, same, kind='transition', start=1)
    NB = window('NB', ['B'], fm0, 2, repeat_last2, stride=2, start=None)
    dd.append(([TA, TB], 'TB'))
    dd.append(([TB, TA], 'TB'))
    dd.append(([NB, TA], 'TA'))
    # a window over TWO factors with an early start (None-padded inputs for both)
    for fn in (lambda k: 0 if (k[2] == k[3] and '~' not in k) else None,          # "B repeats"
               lambda k: 0 if k[0] == '~' else None):                             # "is the first trial"
        dd.append(([window('N', ['A', 'B'], fm0, 2, fn, stride=1, start=0, else_idx=1, dep_none=True)], 'N'))
    cases = [([w], 'N') for w in wins] + dd
    # two within-trial derived factors crossed together (both restrict the source combinations)
    W1 = within('W', ['A', 'B'], fm0, same)
    W2 = within('V', ['A', 'B'], fm0, first_is_0)
    W3 = within('V', ['A', 'B'], fm0, lambda k: 0 if k[1][-1] == '0' else 1)
    two = []
    for Wb in (W2, W3):
        fs2 = [A, B, W1, Wb]
        for cr in (['W', 'V'], ['A', 'W', 'V'], ['B', 'V'], ['W']):
            for cs in ([], [{'c': 'MinimumTrials', 'k': 5}], [{'c': 'AtMostKInARow', 'k': 1, 'factor': 'V', 'level': 'v0'}]):
                for rcc in (True, False):
                    two.append(spec(fs2, cross(['A', 'B', 'W', 'V'], cr, cs, rcc), 'S3'))
    out += two
    # a derived factor listed in the design BEFORE the derived factor it depends on
    Wd = within('W', ['A', 'B'], fm0, same)
    Vd = within('V', ['W', 'A'], dict(fm0, W=Wd), same)
    TAd = window('TA', ['A'], fm0, 2, same, kind='transition', start=1)
    Nd = window('N', ['TA'], dict(fm0, TA=TAd), 2, same, kind='window', start=None)
    for fs, order in (([A, B, Wd, Vd], ['A', 'B', 'V', 'W']), ([A, B, Wd, Vd], ['V', 'W', 'A', 'B']), ([A, B, TAd, Nd], ['A', 'N', 'TA', 'B'])):
        for cr in (['A', 'B'], ['A'], [order[0]] if order[0] in ('V',) else ['B']):
            out.append(spec(fs, cross(order, cr, []), 'S3'))
            out.append(spec(fs, cross(order, cr, [{'c': 'MinimumTrials', 'k': 5}]), 'S3'))
    for extra, top in cases:
        factors = [A, B] + extra
        fm = {f['name']: f for f in factors}
        names = [f['name'] for f in factors]
        strided = fm[top].get('stride', 1) > 1
        crossings = [['A'], ['A', 'B'], ['B']]
        if not strided:
            crossings += [[top], ['B', top]]
        for cr in crossings:
            conss = [[]]
            if not strided:
                conss.append([{'c': 'AtMostKInARow', 'k': 1, 'factor': top, 'level': names_of(fm[top])[0]}])
                conss.append([{'c': 'ExactlyK', 'k': 1, 'factor': top, 'level': names_of(fm[top])[0]}])
            conss.append([{'c': 'ExactlyK', 'k': 1, 'factor': top, 'level': names_of(fm[top])[1]}] if tier == 'thorough' else [])
            size = crossing_size(fm, cr)
            conss.append([{'c': 'MinimumTrials', 'k': size + 2}])
            seen = set()
            for cs in conss:
                key = repr(cs)
                if key in seen:
                    continue
                seen.add(key)
                out.append(spec(factors, cross(names, cr, cs), 'S3'))
    return out


def inner_blocks(tier):
    """S1-style inner blocks for combinators: (factors, block) with and without preamble, with one inner constraint."""
    A = basic('A', 2)
    B = basic('B', 2)
    fm0 = {'A': A, 'B': B}
    TA = window('TA', ['A'], fm0, 2, same, kind='transition', start=1)
    out = []
    for factors, cr in (([A, B], ['A']), ([A, B], ['A', 'B']), ([A, B, TA], ['TA']), ([A, B, TA], ['B', 'TA'])):
        names = [f['name'] for f in factors]
        inner_cons = [[], [{'c': 'AtMostKInARow', 'k': 1, 'factor': 'B', 'level': 'b0'}],
                      [{'c': 'Pin', 'index': 0, 'factor': 'B', 'level': 'b0'}]]
        if tier == 'thorough':
            inner_cons += [[{'c': 'ExactlyK', 'k': 1, 'factor': 'B', 'level': 'b0'}],
                           [{'c': 'AtLeastKInARow', 'k': 2, 'factor': 'B', 'level': 'b0'}],
                           [{'c': 'Pin', 'index': -1, 'factor': 'A', 'level': 'a0'}],
                           [{'c': 'ExactlyKInARow', 'k': 1, 'factor': 'B', 'level': 'b1'}]]
        for cs in inner_cons:
            out.append((factors, cross(names, cr, cs)))
    return out


def block_len(factors, b):
    fm = {f['name']: f for f in factors}
    size = crossing_size(fm, b['crossing'])
    pre = max([0] + [fm[c]['width'] - 1 for c in b['crossing'] if 'deps' in fm[c]])
    return size, pre


def s4(tier):
    """Repeat: inner block x inner constraint x outer constraint x MinimumTrials (whole and partial last repetition)."""
    out = []
    for factors, b in inner_blocks(tier):
        size, pre = block_len(factors, b)
        whole = [None, pre + 2 * size] + ([pre + 3 * size] if size <= 2 else [])
        partial = [pre + 2 * size + 1] if size > 1 else []
        if tier == 'thorough' and size > 2:
            partial.append(pre + 3 * size - 1)
        outer_cons = [[], [{'c': 'AtMostKInARow', 'k': 1, 'factor': 'B', 'level': 'b0'}],
                      [{'c': 'ExactlyK', 'k': 2, 'factor': 'B', 'level': 'b0'}],
                      [{'c': 'Pin', 'index': -1, 'factor': 'B', 'level': 'b1'}]]
        for mt in whole + partial:
            is_partial = mt in partial
            if is_partial and b['constraints'] and not (
                    b['constraints'][0]['c'] == 'AtMostKInARow' or
                    (b['constraints'][0]['c'] == 'Pin' and b['constraints'][0]['index'] >= 0)):
                continue   # A3
            for oc in outer_cons:
                cs = list(oc) + ([{'c': 'MinimumTrials', 'k': mt}] if mt else [])
                if (mt or 0) > 10:
                    continue
                out.append(spec(factors, {'op': 'repeat', 'block': b, 'constraints': cs}, 'S4'))
    return out + s4_multi(tier) + s4_exclude(tier)


def s3_strided(tier):
    """run-length constraints on a factor with stride > 1 (blank trials between its levels): whether a blank trial breaks a run is
    not determined by the documentation, so these designs are used only by the oracle-free check C07 (the two samplers must
    still agree with each other)"""
    out = []
    A = basic('A', 2)
    B = basic('B', 2)
    fm0 = {'A': A, 'B': B}
    for width, start in ((2, None), (3, None), (2, 0)):
        N = window('N', ['A'], fm0, width, repeat_last2 if start is None else (lambda k: 0 if (k[-1] == k[-2] and '~' not in k) else None),
                   stride=2, start=start, else_idx=None if start is None else 1, dep_none=start is not None)
        for cr in (['A'], ['A', 'B']):
            for cls, k in (('AtMostKInARow', 1), ('AtLeastKInARow', 2), ('ExactlyKInARow', 1), ('ExactlyKInARow', 2), ('ExactlyK', 1)):
                for lv in ('n0', 'n1'):
                    for mt in (None, 6):
                        cs = [{'c': cls, 'k': k, 'factor': 'N', 'level': lv}] + ([{'c': 'MinimumTrials', 'k': mt}] if mt else [])
                        out.append(spec([A, B, N], cross(['A', 'B', 'N'], cr, cs), 'S3s'))
    return out


def s4_exclude(tier):
    """Repeat / Merge / Nest of an inner block that carries an Exclude of its own (the combinator must keep the exclusion)"""
    out = []
    A = basic('A', 2)
    C = basic('C', 3)
    O = basic('O', 2)
    ex = [{'c': 'Exclude', 'factor': 'C', 'level': 'c2'}]
    for cr, rcc, size in ((['A', 'C'], False, 4), (['C'], False, 2), (['A'], True, 2)):
        inner = cross(['A', 'C'], cr, ex, rcc)
        for mt in (None, 2 * size, 2 * size + 1):
            cs = [{'c': 'MinimumTrials', 'k': mt}] if mt else []
            out.append(spec([A, C], {'op': 'repeat', 'block': inner, 'constraints': cs}, 'S4'))
            out.append(spec([A, C], {'op': 'merge', 'blocks': [inner], 'constraints': cs, 'mode': 'repeat'}, 'S4'))
        if size == 2:
            out.append(spec([A, C, O], {'op': 'nest', 'outer': cross(['O'], ['O']), 'inner': inner, 'constraints': []}, 'S4'))
    return out


def s4_multi(tier):
    """Repeat / Merge of a multi-crossing block (crossings of different sizes, so the crossings carry different weights), with
    and without a weighted factor that is in only one of the crossings"""
    out = []
    B = basic('B', 2)
    C = basic('C', 3)
    for wA in (None, [2, 1]):
        A = basic('A', 2, wA)
        for crossings in ([['A'], ['C']], [['C'], ['A']], [['A', 'B'], ['C']], [['A'], ['B']], [['B'], ['A']]):
            for mode in ('weight', 'repeat'):
                used = [n for n in ('A', 'B', 'C') if any(n in c for c in crossings)]      # no bystander factors
                fs = [f for f in (A, B, C) if f['name'] in used]
                inner = {'op': 'multi', 'design': used, 'crossings': crossings, 'constraints': [], 'rcc': True, 'mode': mode,
                         'alignment': 'equal preamble'}
                out.append(spec(fs, {'op': 'repeat', 'block': inner, 'constraints': []}, 'S4'))
                out.append(spec(fs, {'op': 'merge', 'blocks': [inner], 'constraints': [], 'mode': 'repeat'}, 'S4'))
                for mt in (6, 7):
                    out.append(spec(fs, {'op': 'repeat', 'block': inner, 'constraints': [{'c': 'MinimumTrials', 'k': mt}]}, 'S4'))
    return out


def s5(tier):
    """MultiCrossBlock / Merge: 2 crossings, equal and unequal sizes/preambles x mode x alignment x 0-1 constraint."""
    out = []
    A = basic('A', 2)
    B = basic('B', 2)
    C = basic('C', 3)
    fm0 = {'A': A, 'B': B, 'C': C}
    TA = window('TA', ['A'], fm0, 2, same, kind='transition', start=1)
    W = within('W', ['A', 'B'], fm0, same)
    cases = [
        ([A, B], [['A'], ['B']]),
        ([A, B, C], [['A'], ['C']]),
        ([A, B, C], [['A', 'B'], ['C']]),
        ([A, B, W], [['A'], ['W']]),
        ([A, B, TA], [['B'], ['TA']]),
        ([A, B, C, TA], [['C'], ['TA']]),
        ([A, B, C, TA], [['B', 'TA'], ['C']]),
        # a Transition factor that is in NO crossing: "the crossing with the latest starting trial determines the unified preamble"
        ([A, B, TA], [['B']]),
        ([A, B, C, TA], [['B'], ['C']]),
    ]
    cons_menu = [[], [{'c': 'AtMostKInARow', 'k': 1, 'factor': 'B', 'level': 'b0'}],
                 [{'c': 'Pin', 'index': 0, 'factor': 'A', 'level': 'a0'}]]
    if tier == 'thorough':
        cons_menu += [[{'c': 'ExactlyK', 'k': 2, 'factor': 'A', 'level': 'a0'}], [{'c': 'MinimumTrials', 'k': 7}]]
    # Merge of two different blocks, one of them carrying its own (block-scoped) constraint
    own = [[{'c': 'AtMostKInARow', 'k': 1, 'factor': 'B', 'level': 'b0'}], [{'c': 'Pin', 'index': -1, 'factor': 'B', 'level': 'b1'}],
           [{'c': 'ExactlyK', 'k': 1, 'factor': 'B', 'level': 'b0'}]]
    for cs1 in own:
        for mode in ('weight', 'repeat'):
            for second, fs in ((cross(['A', 'B', 'C'], ['C']), [A, B, C]), (cross(['A', 'B'], ['B']), [A, B])):
                first = cross(['A', 'B'], ['A'], cs1)
                for outer in ([], [{'c': 'AtMostKInARow', 'k': 2, 'factor': 'A', 'level': 'a0'}]):
                    out.append(spec(fs, {'op': 'merge', 'blocks': [first, second], 'constraints': outer, 'mode': mode,
                                         'alignment': 'equal preamble'}, 'S5'))
    for factors, crossings in cases:
        names = [f['name'] for f in factors]
        for mode in ('equal', 'weight', 'repeat'):
            for al in ('equal preamble', 'post preamble', 'parallel start'):
                for cs in cons_menu:
                    out.append(spec(factors, {'op': 'multi', 'design': names, 'crossings': crossings, 'constraints': cs,
                                              'rcc': True, 'mode': mode, 'alignment': al}, 'S5'))
    return out


def s6(tier):
    """Nest: outer x inner (with/without preamble), inner constraints, combinator constraints, Nest of Nest."""
    out = []
    A = basic('A', 2)
    B = basic('B', 2)
    C = basic('C', 3)
    O = basic('O', 2)
    P = basic('P', 2)
    fm0 = {'A': A, 'B': B, 'C': C, 'O': O, 'P': P}
    TA = window('TA', ['A'], fm0, 2, same, kind='transition', start=1)
    outers = [([O], cross(['O'], ['O'])),
              ([O, P], cross(['O', 'P'], ['O'])),
              ([P, O], cross(['P', 'O'], ['O'])),          # the uncrossed outer factor listed first
              ([O], cross(['O'], ['O'], [{'c': 'Pin', 'index': 0, 'factor': 'O', 'level': 'o0'}]))]
    inners = [([A], cross(['A'], ['A'])),
              ([A, B], cross(['A', 'B'], ['A'])),
              ([A, B], cross(['A', 'B'], ['A'], [{'c': 'AtMostKInARow', 'k': 1, 'factor': 'B', 'level': 'b0'}])),
              ([A, B], cross(['A', 'B'], ['A'], [{'c': 'Pin', 'index': 0, 'factor': 'A', 'level': 'a0'}])),
              ([A, TA], cross(['A', 'TA'], ['TA']))]
    if tier == 'thorough':
        outers.append(([O, P], cross(['O', 'P'], ['O', 'P'])))
        inners.append(([C], cross(['C'], ['C'])))
        inners.append(([A, B], cross(['A', 'B'], ['A'], [{'c': 'ExactlyK', 'k': 1, 'factor': 'B', 'level': 'b0'}])))
    nest_cons = [[], [{'c': 'AtMostKInARow', 'k': 2, 'factor': 'A', 'level': 'a0'}],
                 [{'c': 'Pin', 'index': -1, 'factor': 'A', 'level': 'a1'}]]
    for (fo, bo) in outers:
        for (fi, bi) in inners:
            factors = fo + [f for f in fi if f not in fo]
            have = {f['name'] for f in factors}
            for cs in nest_cons:
                if any(c.get('factor') not in have for c in cs):
                    continue
                out.append(spec(factors, {'op': 'nest', 'outer': bo, 'inner': bi, 'constraints': cs}, 'S6'))
    # (A15: a Nest whose OUTER block has a Transition / Window factor is not generated - how an outer preamble aligns with the inner
    #  runs under the three alignments is not determined by the documentation, and the two samplers disagree with each other there)
    # inner / outer blocks with a hidden weight factor or an implied derived factor
    Aw = basic('A', 2, [2, 1])
    fmw = {'A': A, 'B': B}
    Wd = within('W', ['A', 'B'], fmw, same)
    for fi, bi in (([Aw, B], cross(['A', 'B'], ['B'])), ([A, B, Wd], cross(['A', 'B', 'W'], ['A'])), ([Aw, B], cross(['A', 'B'], ['A']))):
        for (fo, bo) in outers[:2]:
            out.append(spec(fo + fi, {'op': 'nest', 'outer': bo, 'inner': bi, 'constraints': []}, 'S6'))
        out.append(spec(fi + [O], {'op': 'nest', 'outer': bi, 'inner': cross(['O'], ['O']), 'constraints': []}, 'S6'))
    # MinimumTrials on the Nest / on the inner block with an inner run of 3 trials (rounding up to whole inner runs)
    for k in (5, 7, 8, 10):
        out.append(spec([O, C], {'op': 'nest', 'outer': cross(['O'], ['O']), 'inner': cross(['C'], ['C']),
                                 'constraints': [{'c': 'MinimumTrials', 'k': k}]}, 'S6'))
    # MinimumTrials on the Nest together with another constraint (the trial count must not depend on the order of validation)
    for other in ({'c': 'Pin', 'index': 0, 'factor': 'A', 'level': 'a0'}, {'c': 'AtLeastKInARow', 'k': 1, 'factor': 'A', 'level': 'a0'},
                  {'c': 'AtMostKInARow', 'k': 2, 'factor': 'A', 'level': 'a0'}):
        for cs in ([{'c': 'MinimumTrials', 'k': 5}, other], [other, {'c': 'MinimumTrials', 'k': 5}]):
            out.append(spec([O, A], {'op': 'nest', 'outer': cross(['O'], ['O']), 'inner': cross(['A'], ['A']), 'constraints': cs}, 'S6'))
    for k in (4, 5):
        out.append(spec([O, C], {'op': 'nest', 'outer': cross(['O'], ['O']), 'inner': cross(['C'], ['C'], [{'c': 'MinimumTrials', 'k': k}]),
                                 'constraints': []}, 'S6'))
        out.append(spec([O, C], {'op': 'nest', 'outer': cross(['O'], ['O'], [{'c': 'MinimumTrials', 'k': k - 1}]), 'inner': cross(['C'], ['C']),
                                 'constraints': []}, 'S6'))
    # the same on a two-level inner crossing, so that the sequence space stays small: the inner run is as long as the inner block's own
    # MinimumTrials makes it (scaled crossing / Repeat)
    for k in (3, 4):
        out.append(spec([O, A], {'op': 'nest', 'outer': cross(['O'], ['O']), 'inner': cross(['A'], ['A'], [{'c': 'MinimumTrials', 'k': k}]),
                                 'constraints': []}, 'S6'))
        out.append(spec([O, A], {'op': 'nest', 'outer': cross(['O'], ['O']),
                                 'inner': {'op': 'repeat', 'block': cross(['A'], ['A']), 'constraints': [{'c': 'MinimumTrials', 'k': k}]},
                                 'constraints': []}, 'S6'))
    # Sequential on the outer factor (sustained cycle), constraint given to the Nest
    out.append(spec([O, A], {'op': 'nest', 'outer': cross(['O'], ['O']), 'inner': cross(['A'], ['A']),
                             'constraints': [{'c': 'Sequential', 'factor': 'O'}]}, 'S6'))
    # Nest of Nest (associativity pairs are built in C25)
    out.append(spec([O, P, A], {'op': 'nest', 'outer': cross(['O'], ['O']),
                                'inner': {'op': 'nest', 'outer': cross(['P'], ['P']), 'inner': cross(['A'], ['A']), 'constraints': []},
                                'constraints': []}, 'S6'))
    out.append(spec([O, P, A], {'op': 'nest', 'outer': {'op': 'nest', 'outer': cross(['O'], ['O']), 'inner': cross(['P'], ['P']), 'constraints': []},
                                'inner': cross(['A'], ['A']), 'constraints': []}, 'S6'))
    # MinimumTrials on a Nest of a Nest (two sustain levels: the count is rounded up to whole runs of both)
    for k in (5, 9, 10):
        out.append(spec([O, P, A], {'op': 'nest', 'outer': cross(['O'], ['O']),
                                    'inner': {'op': 'nest', 'outer': cross(['P'], ['P']), 'inner': cross(['A'], ['A']), 'constraints': []},
                                    'constraints': [{'c': 'MinimumTrials', 'k': k}]}, 'S6'))
        out.append(spec([O, P, A], {'op': 'nest', 'outer': {'op': 'nest', 'outer': cross(['O'], ['O']), 'inner': cross(['P'], ['P']), 'constraints': []},
                                    'inner': cross(['A'], ['A']), 'constraints': [{'c': 'MinimumTrials', 'k': k}]}, 'S6'))
    # Repeat / Merge of Nest
    n1 = {'op': 'nest', 'outer': cross(['O'], ['O']), 'inner': cross(['A'], ['A']), 'constraints': []}
    out.append(spec([O, A], {'op': 'merge', 'blocks': [n1], 'constraints': [{'c': 'MinimumTrials', 'k': 8}], 'mode': 'repeat'}, 'S6'))
    return out


def s9(tier):
    """edge designs for totality (C08): k >= T, k >= repetition length, Pin out of range, one-level factors, empty crossing
    with MinimumTrials, everything excluded, hidden weight factors with every constraint class."""
    out = []
    A = basic('A', 2)
    B = basic('B', 2)
    A1 = basic('A', 1)
    Aw = basic('A', 2, [2, 1])
    fm0 = {'A': A, 'B': B}
    TA = window('TA', ['A'], fm0, 2, same, kind='transition', start=1)
    W = within('W', ['A', 'B'], fm0, same)
    N3 = window('N', ['A'], fm0, 3, repeat_last2, stride=2, start=None)
    classes = ('AtMostKInARow', 'AtLeastKInARow', 'ExactlyKInARow', 'ExactlyK')
    for factors, cr, T in (([A, B], ['A'], 2), ([A, B], ['A', 'B'], 4), ([A, B, TA], ['B'], 2), ([A, B, TA], ['TA'], 3),
                           ([A, B, W], ['W'], 2), ([A, B, N3], ['A'], 2), ([A, B, N3], ['B', 'N'], 6), ([Aw, B], ['B'], 2),
                           ([Aw, B, W], ['B'], 2), ([Aw, B, TA], ['B'], 2)):
        fm = {f['name']: f for f in factors}
        names = [f['name'] for f in factors]
        for fn in names:
            l0 = names_of(fm[fn])[0]
            for cls in classes:
                for k in sorted(set([T - 1, T, T + 1, 2 * T + 1]) - {0}):
                    out.append(spec(factors, cross(names, cr, [{'c': cls, 'k': k, 'factor': fn, 'level': l0}]), 'S9'))
                if tier == 'thorough' or cls in ('AtLeastKInARow', 'ExactlyKInARow'):
                    out.append(spec(factors, cross(names, cr, [{'c': cls, 'k': T, 'factor': fn, 'level': None}]), 'S9'))
            for idx in (T - 1, T, T + 3, -T, -T - 1, -T - 4):
                out.append(spec(factors, cross(names, cr, [{'c': 'Pin', 'index': idx, 'factor': fn, 'level': l0}]), 'S9'))
            if 'deps' not in fm[fn]:
                out.append(spec(factors, cross(names, cr, [{'c': 'Sequential', 'factor': fn}]), 'S9'))
            # everything of one factor excluded
            ex = [{'c': 'Exclude', 'factor': fn, 'level': l} for l in names_of(fm[fn])]
            for rcc in (True, False):
                out.append(spec(factors, cross(names, cr, ex, rcc), 'S9'))
                out.append(spec(factors, cross(names, cr, ex[:1], rcc), 'S9'))
        # empty crossing
        out.append(spec(factors, cross(names, [], [{'c': 'MinimumTrials', 'k': 3}]), 'S9'))
        out.append(spec(factors, cross(names, [], []), 'S9'))
    # one-level factors
    for factors, cr in (([A1, B], ['A']), ([A1, B], ['A', 'B']), ([A1, B], ['B']), ([A1], ['A'])):
        names = [f['name'] for f in factors]
        for cs in ([], [{'c': 'AtMostKInARow', 'k': 1, 'factor': 'A', 'level': 'a0'}], [{'c': 'ExactlyK', 'k': 1, 'factor': 'A', 'level': 'a0'}],
                   [{'c': 'AtLeastKInARow', 'k': 2, 'factor': 'A', 'level': 'a0'}], [{'c': 'MinimumTrials', 'k': 3}],
                   [{'c': 'Pin', 'index': 0, 'factor': 'A', 'level': 'a0'}], [{'c': 'Sequential', 'factor': 'A'}]):
            out.append(spec(factors, cross(names, cr, cs), 'S9'))
    # Repeat with k >= repetition length / constraints at both levels
    for cls in classes:
        for k in (2, 3, 5):
            inner = cross(['A', 'B'], ['A'], [{'c': cls, 'k': k, 'factor': 'B', 'level': 'b0'}])
            for mt in (4, 5, 6):
                out.append(spec([A, B], {'op': 'repeat', 'block': inner, 'constraints': [{'c': 'MinimumTrials', 'k': mt}]}, 'S9'))
            inner2 = cross(['A', 'B'], ['A'], [])
            out.append(spec([A, B], {'op': 'repeat', 'block': inner2,
                                     'constraints': [{'c': cls, 'k': k, 'factor': 'B', 'level': 'b0'}, {'c': 'MinimumTrials', 'k': 4}]}, 'S9'))
    # a four-trial block repeated with a partial last repetition that is shorter than / as long as the run length
    for cls in classes:
        for k, mts in ((1, (5,)), (2, (5, 6, 7)), (3, (7,))):
            inner = cross(['A', 'B'], ['A', 'B'], [{'c': cls, 'k': k, 'factor': 'B', 'level': 'b0'}])
            for mt in mts:
                out.append(spec([A, B], {'op': 'repeat', 'block': inner, 'constraints': [{'c': 'MinimumTrials', 'k': mt}]}, 'S9'))
    for idx in (3, 4, 5, -4, -5):
        inner = cross(['A', 'B'], ['A', 'B'], [{'c': 'Pin', 'index': idx, 'factor': 'B', 'level': 'b0'}])
        for mt in (None, 6, 8):
            b = inner if mt is None else {'op': 'repeat', 'block': inner, 'constraints': [{'c': 'MinimumTrials', 'k': mt}]}
            out.append(spec([A, B], b, 'S9'))
    for idx in (0, 1, 2, -1, -3, 5):
        inner = cross(['A', 'B', 'TA'], ['TA'], [{'c': 'Pin', 'index': idx, 'factor': 'B', 'level': 'b0'}])
        for mt in (5, 6, 7):
            out.append(spec([A, B, TA], {'op': 'repeat', 'block': inner, 'constraints': [{'c': 'MinimumTrials', 'k': mt}]}, 'S9'))
    return out


def s6_outer_derived(tier):
    """A15 shapes (a Nest whose OUTER block has a Transition factor in its crossing, alone or together with a Transition factor in the
    inner crossing): which sequences are valid is not determined by the documentation, so these designs are used only where no
    sequence-level oracle is needed - C14 (variable allocation and decoding are internal consistency)"""
    out = []
    O = basic('O', 2)
    A = basic('A', 2)
    C = basic('C', 3)
    fm0 = {'O': O, 'A': A}
    TO = window('TO', ['O'], fm0, 2, same, kind='transition', start=1)
    TA = window('TA', ['A'], fm0, 2, same, kind='transition', start=1)
    for al in ('post preamble', 'parallel start'):
        for fi, bi in (([C], cross(['C'], ['C'])), ([A, TA], cross(['A', 'TA'], ['TA'])), ([A, TA], cross(['A', 'TA'], ['A', 'TA']))):
            for bo in (cross(['O', 'TO'], ['TO']), cross(['O', 'TO'], ['O', 'TO'])):
                out.append(spec([O, TO] + fi, {'op': 'nest', 'outer': bo, 'inner': bi, 'constraints': [], 'alignment': al}, 'S6a'))
    return out


def s1_derived_of_derived(tier):
    """a Transition factor over a within-trial DERIVED factor (two derivation steps), crossed: the preamble trial's derived value feeds
    the first transition"""
    out = []
    A = basic('A', 2)
    B = basic('B', 2)
    fm = {'A': A, 'B': B}
    W = within('W', ['A', 'B'], fm, same)
    fm['W'] = W
    TW = window('TW', ['W'], fm, 2, same, kind='transition', start=1)
    for cr in (['TW'], ['A', 'TW'], ['B', 'TW']):
        for cs in ([], [{'c': 'AtMostKInARow', 'k': 1, 'factor': 'TW', 'level': 'tw0'}], [{'c': 'Pin', 'index': 0, 'factor': 'W', 'level': 'w0'}]):
            out.append(spec([A, B, W, TW], cross(['A', 'B', 'W', 'TW'], cr, cs), 'S1d'))
    return out


STRATA = {'S1d': s1_derived_of_derived, 'S6a': s6_outer_derived, 'S3s': s3_strided, 'S1n': s1_numeric, 'S9': s9, 'S1p': s1_pairs, 'S1xa': s1_exclude_a11, 'S2s': s2_small, 'S1L': s1_latin3, 'S1': s1, 'S1x': s1_exclude, 'S2': s2, 'S3': s3, 'S4': s4, 'S5': s5, 'S6': s6}


def shape_key(d):
    """Coarse shape class of a design (names abstracted to kinds): stratified thinning keeps every class represented."""
    b = d['block']
    fm = {f['name']: f for f in d['factors']}
    parts = []
    crossed = set()

    def collect(x):
        for c in ([x.get('crossing')] if x.get('crossing') is not None else []) + list(x.get('crossings', [])):
            crossed.update(c)
        for k in ('block', 'outer', 'inner'):
            if k in x:
                collect(x[k])
        for y in x.get('blocks', []):
            collect(y)
    collect(b)

    def kind(n):
        f = fm[n]
        w = 'W' if any(x > 1 for _, x in f['levels']) else ''
        base = (f['kind'] + str(f['width']) + 's' + str(f['stride']) + ('e' if f.get('start') not in (None,) else '')) if 'deps' in f else 'basic' + str(len(f['levels']))
        return base + w + ('x' if n in crossed else 'u')

    def walk(x):
        cs = []
        for c in x.get('constraints', []):
            k = c['c']
            if k == 'MinimumTrials':
                k += str(c['k'])
            elif 'k' in c:
                k += ('1' if c['k'] == 1 else ('2' if c['k'] == 2 else '3+')) + ('L' if c.get('level') else 'F') + kind(c['factor'])
            elif k == 'Pin':
                k += ('neg' if c['index'] < 0 else 'pos') + kind(c['factor'])
            elif 'factor' in c:
                k += kind(c['factor'])
            cs.append(k)
        cr = [tuple(sorted(kind(n) for n in x['crossing']))] if 'crossing' in x else [tuple(sorted(kind(n) for n in c)) for c in x.get('crossings', [])]
        parts.append((x['op'], tuple(cr), tuple(sorted(cs)), x.get('mode'), x.get('alignment'), x.get('rcc', True)))
        for k in ('block', 'outer', 'inner'):
            if k in x:
                walk(x[k])
        for y in x.get('blocks', []):
            walk(y)
    walk(b)
    fs = tuple(sorted(kind(f['name']) + ('else' if f.get('else') is not None else '') for f in d['factors']))
    return repr((parts, fs))


def thin(ds, cap, seed):
    """Round-robin over shape classes (simplest-first inside a class, rotated by the seed) until `cap` designs."""
    groups = {}
    order = []
    for d in ds:
        k = shape_key(d)
        if k not in groups:
            groups[k] = []
            order.append(k)
        groups[k].append(d)
    if len(order) > cap:
        # more classes than budget: evenly spaced classes (offset rotates with the seed), first member of each
        step = len(order) / float(cap)
        off = (seed % max(1, int(step))) if step >= 2 else 0
        idx = sorted(set(min(len(order) - 1, int(i * step) + off) for i in range(cap)))
        return [groups[order[i]][seed % len(groups[order[i]])] for i in idx]
    out = []
    depth = 0
    while len(out) < cap:
        added = False
        for k in order:
            g = groups[k]
            if depth < len(g):
                out.append(g[(depth + seed) % len(g)] if depth == 0 else g[depth])
                added = True
                if len(out) >= cap:
                    break
        if not added:
            break
        depth += 1
    return out


def designs(strata, tier, seed=0, quick_fraction=None):
    """All designs of the given strata. In quick tier the larger strata are thinned deterministically: round-robin over
    shape classes (fixed core = one member of every class while the cap allows), the member chosen rotates with the seed."""
    out = []
    for s in strata:
        ds = STRATA[s](tier)
        if tier == 'quick' and quick_fraction and len(ds) > quick_fraction.get(s, 10 ** 9):
            ds = thin(ds, quick_fraction[s], seed)
        out += ds
    return out
