"""Shared exploration of RandomGen's candidate space (C04, C05): every candidate index (preamble choice, per-round
component tuples, leftover components) is a sequence of random.randrange draws; the E2 explorer enumerates the whole
choice tree of the FIRST candidate of a one-sample request (a second call of generate_random_samples means the first
candidate was rejected)."""
from collections import Counter
from vt import core, dsw, seams, explore

CAP = {'quick': 1200, 'thorough': 40000}
BOUNDED_CAP = {'quick': 700, 'thorough': 20000}
WALL = {'quick': 12, 'thorough': 120}     # per design and exploration; an exploration cut short is reported as incomplete


def explore_candidates(c, tier, cap=None, bound=None, baseline=None):
    """-> dict(accepted Counter, rejected, none, ex Exploration, arities set, error) on a block built once."""
    import sweetpea as sp
    block = c.block
    accepted = Counter()
    info = {'rejected': 0, 'none': 0, 'error': None, 'first': None}

    def run(script):
        with seams.scripted_random(script), seams.one_candidate():
            try:
                exps = core.quiet(sp.synthesize_trials, block, 1, sp.RandomGen)
            except seams.StopExploration:
                return ('rejected',)
        if not exps:
            return ('none',)
        try:
            t = dsw.tuples(exps, c.design)[0]
        except (KeyError, IndexError) as e:
            return ('malformed', type(e).__name__, str(e)[:120])
        return ('accepted', t)

    def on_result(script, out):
        if out[0] == 'accepted':
            accepted[out[1]] += 1
            if info['first'] is None:
                info['first'] = script.choices()
        elif out[0] == 'rejected':
            info['rejected'] += 1
        elif out[0] == 'none':
            info['none'] += 1
        elif out[0] == 'malformed' and info['error'] is None:
            info['error'] = out
    try:
        ex = explore.explore_choices(run, bound=bound, cap=(cap or (BOUNDED_CAP[tier] if bound else CAP[tier])), on_result=on_result,
                                    wall=WALL[tier], baseline=baseline)
    except core.HarnessError:
        raise
    except Exception as e:           # the sampler raised: C08's subject
        info['exception'] = e
        ex = None
    info['accepted'] = accepted
    info['ex'] = ex
    return info


def replay_twice(c, choices):
    """Seam conformance: one recorded choice sequence replayed twice gives identical observations."""
    import sweetpea as sp
    outs = []
    for _ in range(2):
        sc = explore.Script(choices)
        with seams.scripted_random(sc), seams.one_candidate():
            try:
                exps = core.quiet(sp.synthesize_trials, c.block, 1, sp.RandomGen)
                outs.append(core.canon(dsw.tuples(exps, c.design)))
            except seams.StopExploration:
                outs.append('rejected')
    if outs[0] != outs[1]:
        raise core.HarnessError('replay of one RandomGen schedule gave two different observations')


def possible_keys(block):
    import sweetpea._internal.sampling_strategy.random as R
    en = core.quiet(R.UCSolutionEnumerator, block)
    T = block.trials_per_sample()
    cs = en.crossing_size
    rounds = (T - en._preamble_size) // cs
    leftover = (T - en._preamble_size) % cs
    return en.preamble_solution_count() * pow(en.solution_count(), rounds) * en.leftover_solution_count(), en.solution_count()


class RecordingRandom:
    """A seeded PRNG behind the randrange seam that records every draw as a choice (value - low)."""
    def __init__(self, seed):
        import random as _r
        self.r = _r.Random(seed)
        self.choices = []

    def randrange(self, a, b=None):
        lo, hi = (0, a) if b is None else (a, b)
        v = self.r.randrange(lo, hi)
        self.choices.append(v - lo)
        return v


def find_accepting_schedule(c, tries=300, wall=6.0):
    """Heuristic search (seeded PRNG) for ONE draw schedule whose candidate is accepted; it only provides the baseline
    around which the deviation-bounded exploration is exhaustive."""
    import time
    import sweetpea as sp
    import sweetpea._internal.sampling_strategy.random as Rm
    t0 = time.time()
    for k in range(tries):
        rec = RecordingRandom(1000 + k)
        with seams.rebound(Rm, 'random', rec), seams.one_candidate():
            try:
                exps = core.quiet(sp.synthesize_trials, c.block, 1, sp.RandomGen)
            except seams.StopExploration:
                exps = None
            except Exception:
                return None
        if exps:
            return list(rec.choices)
        if time.time() - t0 > wall:
            break
    return None
