"""Tiny exhaustive SAT utilities (pycryptosat as oracle, truth table cross-check for small formulas)."""
import itertools
import pycryptosat


def variables_of(clauses):
    return sorted({abs(l) for c in clauses for l in c})


def all_models(clauses, over=None, assumptions=(), limit=None, nvars=None):
    """Enumerate all models of `clauses` projected on `over` (default: every variable that occurs, plus
    assumption variables). Each model is a tuple of signed ints over `over`. Stops after `limit` models."""
    vs = set(variables_of(clauses)) | {abs(a) for a in assumptions}
    if over is None:
        over = sorted(vs)
    s = pycryptosat.Solver()
    for c in clauses:
        if len(c) == 0:
            return []
        s.add_clause(list(c))
    for v in sorted((set(over) | {abs(a) for a in assumptions}) - set(variables_of(clauses))):
        s.add_clause([v, -v])   # declare variables that occur in no clause
    out = []
    if not over:
        sat, _ = s.solve(list(assumptions))
        return [()] if sat else []
    while True:
        sat, m = s.solve(list(assumptions))
        if not sat:
            return out
        model = tuple(v if m[v] else -v for v in over)
        out.append(model)
        if limit is not None and len(out) >= limit:
            return out
        s.add_clause([-l for l in model])


def count_models_truth_table(clauses, assumptions=()):
    """Brute force model count over all occurring variables (for cross-checking the solver; <= ~18 vars)."""
    vs = sorted(set(variables_of(clauses)) | {abs(a) for a in assumptions})
    idx = {v: i for i, v in enumerate(vs)}
    cls = [[(idx[abs(l)], l > 0) for l in c] for c in clauses] + [[(idx[abs(a)], a > 0)] for a in assumptions]
    n = 0
    for bits in itertools.product((False, True), repeat=len(vs)):
        for c in cls:
            for i, pos in c:
                if bits[i] == pos:
                    break
            else:
                break
        else:
            n += 1
    return n


def cnf_to_lists(cnf):
    """sweetpea CNF object -> list of lists of ints."""
    return [[int(v) for v in clause] for clause in cnf]
