"""Regenerates the coverage table of DESIGN.md (section 8.4) from evidence/*.json: python -m vt.evtable"""
import json
from pathlib import Path

ROOT = Path(__file__).resolve().parent.parent


def main():
    rows = []
    for f in sorted((ROOT / 'evidence').glob('C*.json')):
        e = json.loads(f.read_text())
        c = e['coverage']
        rows.append('| %s | %s/%d | %d | %d | %d | %d | %d | %d | %s | %s | %.0f |' % (
            e['property_id'], e['tier'], e['seed'], c['evaluations'], c['items_ok'], c['items_skipped'], c['items_timeout'],
            c['states'], c['transitions'], c['traces_validated_against_impl'],
            ', '.join('%s x %d' % kv for kv in sorted(c.get('known_findings_hit', {}).items())) or '-', e['wall_s']))
    table = ('| check | tier/seed | items | ok | skipped | timed out | states | transitions | validated against impl. | known findings hit | wall s |\n'
             '|---|---|---|---|---|---|---|---|---|---|---|\n' + '\n'.join(rows) + '\n')
    p = ROOT / 'DESIGN.md'
    s = p.read_text()
    a, b = '<!-- EVIDENCE-TABLE-START -->', '<!-- EVIDENCE-TABLE-END -->'
    s = s[:s.index(a)] + a + '\n' + table + s[s.index(b):]
    p.write_text(s)
    print(len(rows), 'rows')


if __name__ == '__main__':
    main()
