"""spec -> fresh sweetpea objects (table-driven predicates) and result normalisation."""
import warnings
warnings.simplefilter('ignore')
import sweetpea as sp

NONE = '~'


def make_pred(fs, idx, log=None):
    w = fs['width']
    table = fs['table']

    def key_of(args):
        parts = []
        if fs['kind'] == 'within':
            for a in args:
                parts.append(a if a is not None else NONE)
        else:
            for a in args:
                for j in range(-(w - 1), 1):
                    v = a[j]
                    parts.append(v if v is not None else NONE)
        return '|'.join(map(str, parts))

    def pred(*args):
        k = key_of(args)
        if log is not None:
            log.add(k)
        return idx in table.get(k, [])
    return pred


def build_factors(spec, log=None):
    objs = {}
    for fs in spec['factors']:
        if fs.get('continuous'):
            continue
        if 'deps' not in fs:
            objs[fs['name']] = sp.Factor(fs['name'], [sp.Level(n, w) if w != 1 else sp.Level(n) for n, w in fs['levels']])
        else:
            deps = [objs[d] for d in fs['deps']]
            lvls = []
            for i, (n, w) in enumerate(fs['levels']):
                if fs.get('else') == i:
                    lvls.append(sp.ElseLevel(n, w))
                    continue
                p = make_pred(fs, i, log)
                if fs['kind'] == 'within':
                    d = sp.WithinTrial(p, deps)
                elif fs['kind'] == 'transition':
                    d = sp.Transition(p, deps)
                else:
                    d = sp.Window(p, deps, fs['width'], fs['stride'], fs.get('start'))
                lvls.append(sp.DerivedLevel(n, d, w))
            objs[fs['name']] = sp.Factor(fs['name'], lvls)
    return objs


def build_constraint(c, objs):
    k = c['c']
    if k == 'MinimumTrials':
        return sp.MinimumTrials(c['k'])
    if k == 'Exclude':
        return sp.Exclude((objs[c['factor']], c['level']))
    if k == 'Pin':
        return sp.Pin(c['index'], (objs[c['factor']], c['level']))
    if k in ('AtMostKInARow', 'AtLeastKInARow', 'ExactlyKInARow', 'ExactlyK'):
        cls = getattr(sp, k)
        if c.get('level') is None:
            return cls(c['k'], objs[c['factor']])
        return cls(c['k'], (objs[c['factor']], c['level']))
    if k == 'Sequential':
        return sp.Sequential(objs[c['factor']])
    if k == 'LatinSquare':
        return sp.LatinSquare([objs[f] for f in c['factors']])
    raise ValueError(k)


def build_block(b, objs, cons_cache=None):
    """cons_cache: dict canon(constraint spec) -> constraint object; when given, equal constraint specs share ONE object"""
    op = b['op']
    if op == 'shared':
        # one block OBJECT shared by every construction of the world that names it (C18)
        key = '#block:' + b['name']
        if cons_cache is None:
            return build_block(b['block'], objs, None)
        if key not in cons_cache:
            cons_cache[key] = build_block(b['block'], objs, cons_cache)
        return cons_cache[key]
    if cons_cache is None:
        cs = [build_constraint(c, objs) for c in b.get('constraints', [])]
    else:
        import json
        cs = []
        for c in b.get('constraints', []):
            k = json.dumps(c, sort_keys=True)
            if k not in cons_cache:
                cons_cache[k] = build_constraint(c, objs)
            cs.append(cons_cache[k])
    if op == 'cross':
        return sp.CrossBlock([objs[n] for n in b['design']], [objs[n] for n in b['crossing']], cs, b.get('rcc', True))
    if op == 'multi':
        return sp.MultiCrossBlock([objs[n] for n in b['design']], [[objs[n] for n in c] for c in b['crossings']], cs,
                                  b.get('rcc', True), mode=b.get('mode', 'equal'), alignment=b.get('alignment', 'equal preamble'))
    if op == 'repeat':
        return sp.Repeat(build_block(b['block'], objs, cons_cache), cs)
    if op == 'merge':
        kw = {}
        if b.get('alignment'):
            kw['alignment'] = b['alignment']
        subs = [build_block(x, objs, cons_cache) for x in b['blocks']]
        if not cs and not kw and b.get('mode', 'repeat') == 'repeat':
            return sp.Merge(subs)          # as a user would write it: every argument at its default
        return sp.Merge(subs, cs, mode=b.get('mode', 'repeat'), **kw)
    if op == 'nest':
        kw = {}
        if b.get('alignment'):
            kw['alignment'] = b['alignment']
        o, i = build_block(b['outer'], objs, cons_cache), build_block(b['inner'], objs, cons_cache)
        if not cs and not kw:
            return sp.Nest(o, i)           # default arguments
        return sp.Nest(o, i, cs, **kw)
    raise ValueError(op)


def build(spec, log=None):
    objs = build_factors(spec, log)
    return objs, build_block(spec['block'], objs)


def as_tuples(exps, design_names):
    out = []
    for e in exps:
        T = len(next(iter(e.values()))) if e else 0
        out.append(tuple(tuple(e[n][i] for n in design_names) for i in range(T)))
    return out


GENS = {'sat': 'IterateSATGen', 'rnd': 'RandomGen', 'cms': 'CMSGen', 'uni': 'UniGen', 'iter': 'IterateGen',
        'uniform': 'UniformGen', 'sm': 'SMGen'}


def gen(name):
    return getattr(sp, GENS[name])


def block_design(b):
    """user-visible factor names of a block spec, in the order the library reports them"""
    op = b['op']
    if op == 'shared':
        return block_design(b['block'])
    if op in ('cross', 'multi'):
        return list(b['design'])
    out = []
    subs = [b['block']] if op == 'repeat' else (b['blocks'] if op == 'merge' else [b['outer'], b['inner']])
    for s in subs:
        for n in block_design(s):
            if n not in out:
                out.append(n)
    return out
