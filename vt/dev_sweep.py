"""Development tool: sweep strata, compare reference / IterateSATGen / RandomGen, cluster disagreements."""
import sys, json, time, os, multiprocessing, tempfile, shutil, signal
from collections import Counter
from vt import core, gen, sweep

def run_one(spec):
    res = {}
    r, skip = sweep.ref_solve(spec, 3000)
    if r is None:
        return {'skip': skip}
    res['ref'] = [len(x) for x in r.readings]
    res['refT'] = r.Ts
    res['ref_refused'] = r.refused
    res['ref_errors'] = bool(r.errors)
    for s in ('sat', 'rnd'):
        objs, block, e = sweep.fresh_block(spec)
        if e is not None:
            res[s] = 'BUILD_EXC ' + type(e).__name__ + ' ' + str(e)[:60]
            continue
        nmax = max([sum(x.values()) for x in r.readings] + [0]) + 20
        try:
            T = block.trials_per_sample()
        except Exception as e:
            res[s] = 'T_EXC ' + type(e).__name__
            continue
        exps, e, out = sweep.exhaust(block, s, nmax, r.design)
        if e is not None:
            res[s] = 'EXC ' + type(e).__name__ + ' ' + str(e)[:60]
            continue
        try:
            tup = sweep.tuples(exps, r.design)
        except Exception as e:
            res[s] = 'TUPLE_EXC ' + type(e).__name__ + ' ' + str(e)[:60] + ' keys=' + str(sorted(map(str, exps[0].keys())) if exps else None)
            continue
        cnt = Counter(tup)
        d = {'n': len(tup), 'T': T}
        ok = False
        for valid, Tr in zip(r.readings, r.Ts):
            if cnt == Counter(valid) and (T == Tr or r.errors):
                ok = True
        if not ok and r.readings:
            valid, Tr = r.readings[0], r.Ts[0]
            if T != Tr and not r.errors: d['T_ref'] = Tr
            inv = set(cnt) - set(valid); mis = set(valid) - set(cnt)
            if inv: d['invalid'] = len(inv); d['ex_invalid'] = sorted(inv)[0]
            if mis: d['missing'] = len(mis); d['ex_missing'] = sorted(mis)[0]
            mult = [k for k in cnt if k in valid and cnt[k] != valid[k]]
            if mult: d['mult'] = len(mult)
        if not r.readings:
            d['no_reading'] = True
        res[s] = d
    return res

def interesting(res):
    if 'skip' in res: return False
    for s in ('sat', 'rnd'):
        r = res.get(s)
        if isinstance(r, str):
            if r.startswith('BUILD_EXC') and res.get('ref_refused'): continue
            return True
        if r and (set(r) - {'n', 'T'}): return True
        if r and res.get('ref_refused'): return True
    return False

def _w(args):
    i, spec = args
    signal.signal(signal.SIGALRM, core._alarm)
    signal.setitimer(signal.ITIMER_REAL, 60)
    try:
        r = run_one(spec)
    except core.ItemTimeout:
        r = {'skip': 'timeout'}
    except Exception as e:
        import traceback
        r = {'skip': 'HARNESS ' + ''.join(traceback.format_exception(type(e), e, e.__traceback__))[-600:]}
    finally:
        signal.setitimer(signal.ITIMER_REAL, 0)
    return i, r

if __name__ == '__main__':
    strata = sys.argv[1].split(',')
    tier = sys.argv[2] if len(sys.argv) > 2 else 'quick'
    lim = int(sys.argv[3]) if len(sys.argv) > 3 else 10**9
    specs = gen.designs(strata, tier)[:lim]
    root = tempfile.mkdtemp(prefix='devsweep')
    t0 = time.time()
    sigs = Counter(); ex = {}
    skips = Counter()
    with multiprocessing.get_context('fork').Pool(16, initializer=core._init_worker, initargs=(root,)) as pool:
        for i, res in pool.imap_unordered(_w, list(enumerate(specs)), chunksize=4):
            if 'skip' in res:
                skips[res['skip'][:80]] += 1; continue
            if interesting(res):
                spec = specs[i]
                ds = sweep.design_sig(spec)
                parts = []
                for s in ('sat', 'rnd'):
                    r = res.get(s)
                    if isinstance(r, dict): parts += [s + ':' + k for k in r if k not in ('n', 'T', 'ex_invalid', 'ex_missing')]
                    else: parts.append(s + ':' + str(r)[:50])
                sig = (ds['ops'], ds['cons'], ds['derived'], ds['weighted'], tuple(parts))
                sigs[sig] += 1
                ex.setdefault(sig, (spec, res))
    shutil.rmtree(root, ignore_errors=True)
    print('specs', len(specs), 'interesting', sum(sigs.values()), 'skips', dict(skips), 'time %.1f' % (time.time() - t0))
    for k, v in sorted(sigs.items(), key=lambda kv: -kv[1]):
        print(v, k)
        spec, res = ex[k]
        print('    ', json.dumps({'block': spec['block'], 'lv': [(f['name'], f['levels'], f.get('kind'), f.get('width'), f.get('stride'), f.get('start')) for f in spec['factors']]}, default=str)[:700])
        print('    ', json.dumps(res, default=str)[:500])
