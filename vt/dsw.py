"""Design-sweep primitives shared by the design-space checks (E1): reference solve, fresh build, exhaustion through
the real samplers, all-SAT of the compiled formula, comparison with the reference readings, violation signatures."""
import os
from collections import Counter
from vt import core, ref as R, build as B, sat

REF_LIMIT = {'quick': 250, 'thorough': 1000}
# designs per stratum in a quick run (stratified over shape classes, see gen.thin); thorough runs take whole strata
# cheap checks take (nearly) whole strata even in a quick run
QUICK_CAPS_BIG = {'S3s': 200, 'S1p': 400, 'S1xa': 150, 'S1': 900, 'S1x': 250, 'S2': 550, 'S3': 700, 'S4': 260, 'S5': 220, 'S6': 120, 'S9': 450}
QUICK_CAPS_MID = {'S1p': 200, 'S1xa': 100, 'S1': 450, 'S1x': 120, 'S2': 300, 'S3': 400, 'S4': 180, 'S5': 140, 'S6': 100, 'S9': 300}
QUICK_CAPS = {'S1p': 120, 'S1xa': 60, 'S1': 220, 'S1x': 60, 'S2': 160, 'S3': 200, 'S4': 90, 'S5': 80, 'S6': 46, 'S9': 200}


class Ctx:
    pass


def design_sig(spec):
    """Coarse structural signature of a design (used in violation signatures / known-finding matchers)."""
    b = spec['block']
    ops, cons = [], []

    def walk(x):
        ops.append(x['op'])
        for c in x.get('constraints', []):
            cons.append(c['c'])
        for k in ('block', 'outer', 'inner'):
            if k in x:
                walk(x[k])
        for y in x.get('blocks', []):
            walk(y)
    walk(b)
    d = [f for f in spec['factors'] if 'deps' in f]
    weighted = any(w > 1 for f in spec['factors'] for _, w in f.get('levels', []))
    fm = {f['name']: f for f in spec['factors']}
    crossings, rccs, excl = [], [], []

    def walk2(x):
        if x['op'] == 'cross':
            crossings.append(x['crossing'])
            rccs.append(x.get('rcc', True))
        elif x['op'] == 'multi':
            crossings.extend(x['crossings'])
            rccs.append(x.get('rcc', True))
        for c in x.get('constraints', []):
            if c['c'] == 'Exclude':
                excl.append(c['factor'])
        for k in ('block', 'outer', 'inner'):
            if k in x:
                walk2(x[k])
        for y in x.get('blocks', []):
            walk2(y)
    walk2(b)
    in_all = set(fm) if crossings else set()
    in_any = set()
    for c in crossings:
        in_all &= set(c)
        in_any |= set(c)

    def desugared(n):      # weighted basic factor that the library rewrites into a hidden factor + derived factor
        f = fm[n]
        return 'deps' not in f and not f.get('continuous') and any(w > 1 for _, w in f['levels']) and n not in in_any
    # a crossed within-trial derived factor one of whose inputs is itself derived (or is rewritten to a derived factor)
    xwd = any('deps' in fm[n] and fm[n]['width'] == 1 and any('deps' in fm[dn] or desugared(dn) for dn in fm[n]['deps'])
              for n in in_any if n in fm)
    # a run-length constraint whose factor has stride > 1 (blank trials between its levels)
    kstride = False

    def walk3(x):
        nonlocal kstride
        for c in x.get('constraints', []):
            if c['c'] in ('AtMostKInARow', 'AtLeastKInARow', 'ExactlyKInARow') and fm.get(c.get('factor'), {}).get('stride', 1) > 1:
                kstride = True
        for k in ('block', 'outer', 'inner'):
            if k in x:
                walk3(x[k])
        for y in x.get('blocks', []):
            walk3(y)
    walk3(b)
    kinds = set()
    for n in excl:
        kinds.add(('crossed_' if n in in_any else 'uncrossed_') + ('derived' if 'deps' in fm[n] else 'basic'))
    return {'ops': '+'.join(ops), 'cons': '+'.join(sorted(set(cons))) or '-',
            'derived': '+'.join(sorted(set(f['kind'] for f in d))) or '-', 'weighted': weighted,
            'rcc': all(rccs), 'xwd': xwd, 'excl': '+'.join(sorted(kinds)) or '-', 'kstride': kstride}


def brief(spec):
    return {'block': spec['block'],
            'factors': [[f['name'], f['levels']] + ([f['kind'], f['width'], f['stride'], f.get('start')] if 'deps' in f else [])
                        for f in spec['factors']]}


def setup(spec, tier, ref_limit=None, need_ref=True, fallback_checker=False):
    """-> (Ctx, None) or (None, skip result).  Ctx: spec, ref, objs, block, design (user-visible factor names).
    fallback_checker: when the valid set is too large to enumerate, c.ref is None and c.checker is a single-sequence
    membership oracle (soundness-only checks can still run)."""
    c = Ctx()
    c.spec = spec
    c.sig = design_sig(spec)
    c.ref = None
    c.checker = None
    if need_ref:
        try:
            c.ref = R.solve(spec, limit=ref_limit or REF_LIMIT[tier])
        except R.RefOverflow:
            if not fallback_checker:
                return None, core.skip('ref_overflow')
            try:
                c.checker = R.Checker(spec)
            except R.RefUnsupported:
                return None, core.skip('ref_unsupported')
            if c.checker.unsupported:
                return None, core.skip('ref_unsupported')
        except R.RefUnsupported as e:
            return None, core.skip('ref_unsupported')
    try:
        c.objs, c.block = core.quiet(B.build, spec)
    except Exception as e:
        # the constructors refuse the design: it is outside "designs the constructors accept"
        return None, core.skip('constructor_refuses' if (c.ref is None or c.ref.refused) else 'constructor_raises:' + type(e).__name__)
    if c.ref is not None and c.ref.refused:
        return None, core.skip('reference_says_refused_but_constructed')
    if c.ref is not None and not c.ref.readings:
        return None, core.skip('no_reading')
    if c.checker is not None and (c.checker.refused or not c.checker.sems):
        return None, core.skip('reference_says_refused_but_constructed')
    c.design = c.ref.design if c.ref is not None else (c.checker.design if c.checker is not None else B.block_design(spec['block']))
    return c, None


def all_valid(c, seqs):
    """soundness: every sequence valid under one reading (reference set) / under some reading (membership oracle)
    -> (ok, first invalid example)"""
    if c.ref is not None:
        if match_subset(c.ref, seqs) is not None:
            return True, None
        v = c.ref.readings[0]
        bad = [s for s in seqs if s not in v]
        return False, (bad[0] if bad else None)
    for s in seqs:
        if not c.checker.valid(s):
            return False, s
    return True, None


def rebuild(c):
    c.objs, c.block = core.quiet(B.build, c.spec)
    return c.block


def synth(block, n, gen_name):
    """synthesize_trials with output captured -> (exps | None, exception | None, stdout)"""
    import sweetpea as sp
    try:
        if gen_name == 'sm':
            # never start SMGen's real 60-second threading.Timer inside a worker
            from vt import seams
            with seams.smgen_seams():
                exps, out = core.quiet_out(sp.synthesize_trials, block, n, B.gen(gen_name))
        else:
            exps, out = core.quiet_out(sp.synthesize_trials, block, n, B.gen(gen_name))
    except Exception as e:
        return None, e, ''
    return exps, None, out


def tuples(exps, design):
    """experiments (dict name -> list) -> list of tuples of per-trial tuples in `design` order.
    Raises KeyError/IndexError when a column is missing or short (caller reports)."""
    out = []
    for e in exps:
        T = max([len(v) for v in e.values()] + [0])
        out.append(tuple(tuple(e[n][i] for n in design) for i in range(T)))
    return out


def column_problems(exps, design, T):
    """Every experiment must have exactly the user-visible factor names as keys, each with T entries."""
    for e in exps:
        keys = sorted(map(str, e.keys()))
        if sorted(design) != keys:
            return 'keys %r, expected %r' % (keys, sorted(design))
        for k, v in e.items():
            if len(v) != T:
                return 'column %s has %d entries, expected %d' % (k, len(v), T)
    return None


def match_exact(ref, counter):
    """index of the reading whose multiset equals `counter`, else None"""
    for i, valid in enumerate(ref.readings):
        if counter == Counter(valid):
            return i
    return None


def match_subset(ref, seqs):
    for i, valid in enumerate(ref.readings):
        if all(s in valid for s in seqs):
            return i
    return None


def diff_detail(ref, counter):
    """Human-readable difference against the closest reading."""
    best = None
    for i, valid in enumerate(ref.readings):
        inv = [s for s in counter if s not in valid]
        mis = [s for s in valid if s not in counter]
        mult = [s for s in counter if s in valid and counter[s] != valid[s]]
        score = len(inv) + len(mis) + len(mult)
        if best is None or score < best[0]:
            best = (score, i, inv, mis, mult, valid)
    _, i, inv, mis, mult, valid = best
    d = {'reading': i, 'returned': sum(counter.values()), 'reference': sum(valid.values()), 'T_ref': ref.Ts[i]}
    if inv:
        d['invalid_count'] = len(inv)
        d['invalid_example'] = sorted(inv)[0]
    if mis:
        d['missing_count'] = len(mis)
        d['missing_example'] = sorted(mis)[0]
    if mult:
        d['multiplicity_wrong'] = len(mult)
        d['multiplicity_example'] = [sorted(mult)[0], counter[sorted(mult)[0]], valid[sorted(mult)[0]]]
    kinds = '+'.join(k for k, v in (('invalid', inv), ('missing', mis), ('mult', mult)) if v)
    return kinds, d


def nontrivial(ref):
    """>= 2 valid sequences in some reading (so that an exhaustion comparison says something)"""
    return any(len(v) >= 2 for v in ref.readings)


def ref_size(ref):
    return max([sum(v.values()) for v in ref.readings] + [0])


# ---------------------------------------------------------------------------------------------
# compiled formula

def compiled(block):
    """-> (clauses, support, errors_flag) through the real build_cnf."""
    from sweetpea._internal.server import build_cnf
    cnf = core.quiet(build_cnf, block)
    failed = any('WARNING' not in e for e in (block.errors or []))
    return sat.cnf_to_lists(cnf), block.variables_per_sample(), failed, cnf


def decode_solution(block, assignment):
    """The post-processing synthesize_trials applies to one solver assignment (projection onto the support)."""
    from sweetpea._internal.sampling_strategy.base import Gen
    from sweetpea._internal.primitive import HiddenName
    e = Gen.decode(block, list(assignment))
    e = block.add_implied_levels(e)
    return {k: v for k, v in e.items() if not isinstance(k, HiddenName)}


# ---------------------------------------------------------------------------------------------
# items

def design_items(strata, tier, seed, quick_caps=None, extra=None):
    from vt import gen
    out = []
    for s in gen.designs(strata, tier, seed, quick_caps):
        it = {'spec': {'factors': s['factors'], 'block': s['block']}, 'tag': s.get('tag'), 'tier': tier}
        if extra:
            it.update(extra)
        out.append(it)
    return out


def sample_of(item, res):
    d = brief(item['spec'])
    d['explored'] = {k: res.get(k) for k in ('states', 'transitions', 'validated', 'outcome')}
    return d


def exhaust_vs_ref(c, gens=('sat', 'rnd'), seed=0, pk_cap=3000):
    """Exhaust the given strategies on fresh blocks and compare with the reference multiset.
    -> (viols, states, validated, skipped list)"""
    import random
    from vt import rnd as _rnd
    viols, skipped = [], []
    states = validated = 0
    N = ref_size(c.ref)
    for g in gens:
        block = rebuild(c)
        if g == 'rnd':
            try:
                pk, _ = _rnd.possible_keys(block)
            except Exception as e:
                skipped.append('rnd raises %s (C08)' % type(e).__name__)
                continue
            if pk > pk_cap:
                skipped.append('rnd candidate space too large')
                continue
            random.seed(seed)
        exps, e, out = synth(block, N + 20, g)
        sig = dict(c.sig, gen=g)
        if e is not None:
            viols.append(core.viol('exception', dict(sig, exc=type(e).__name__), design=brief(c.spec), message=str(e)[:300]))
            continue
        try:
            tup = tuples(exps, c.design)
        except (KeyError, IndexError) as e2:
            viols.append(core.viol('malformed_result', dict(sig, exc=type(e2).__name__), design=brief(c.spec), message=str(e2)[:200]))
            continue
        states += len(tup)
        cnt = Counter(tup)
        i = match_exact(c.ref, cnt)
        if i is None:
            kinds, d = diff_detail(c.ref, cnt)
            viols.append(core.viol('set_differs', dict(sig, diff=kinds), design=brief(c.spec), **d))
        else:
            validated += len(tup)
    return viols, states, validated, skipped
