"""Shared design-sweep helpers: reference solve, fresh build, exhaustion through the real samplers."""
import os
from collections import Counter
from vt import core, ref as R, build as B

REF_LIMIT = {'quick': 3000, 'thorough': 30000}


def ref_solve(spec, limit):
    """-> (Ref | None, skip_reason | None)"""
    try:
        return R.solve(spec, limit=limit), None
    except R.RefOverflow:
        return None, 'ref_overflow'
    except R.RefUnsupported as e:
        return None, 'ref_unsupported: %s' % e


def fresh_block(spec, log=None):
    """-> (objs, block, None) or (None, None, exception) when the constructors refuse."""
    try:
        objs, block = core.quiet(B.build, spec, log)
        return objs, block, None
    except Exception as e:  # constructor refusal (or constructor defect - the caller decides)
        return None, None, e


def exhaust(block, gen_name, n, design):
    """Run synthesize_trials(block, n, Gen) with the real solver -> (list of sequences as tuples, exception|None, stdout)"""
    import sweetpea as sp
    try:
        exps, out = core.quiet_out(sp.synthesize_trials, block, n, B.gen(gen_name))
    except Exception as e:
        return None, e, ''
    return exps, None, out


def tuples(exps, design):
    return B.as_tuples(exps, design)


def design_sig(spec):
    """Coarse structural signature of a design (used in violation signatures / known-finding matchers)."""
    b = spec['block']
    ops = []
    cons = []
    def walk(x):
        ops.append(x['op'])
        for c in x.get('constraints', []):
            cons.append(c['c'])
        for k in ('block', 'outer', 'inner'):
            if k in x:
                walk(x[k])
        for y in x.get('blocks', []):
            walk(y)
    walk(b)
    d = [f for f in spec['factors'] if 'deps' in f]
    weighted = any(w > 1 for f in spec['factors'] for _, w in f['levels'])
    return {'ops': '+'.join(ops), 'cons': '+'.join(sorted(set(cons))) or '-',
            'derived': '+'.join(sorted(set(f['kind'] for f in d))) or '-', 'weighted': weighted}


def exc_sig(e):
    return type(e).__name__
