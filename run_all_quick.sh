#!/bin/bash
# Runs every check's quick command in turn (about 35 min on 16 idle cores) and prints one summary line per check.
# VERIF_SEED rotates which member of each design shape class is taken (default 0).
cd "$(dirname "$0")"
for c in C01 C02 C03 C04 C05 C06 C07 C08 C09 C10 C11 C12 C13 C14 C15 C16 C17 C18 C19 C20 C21 C22 C23 C24 C25 C26 C27 C28 C29; do
  s=$(date +%s)
  VERIF_SEED=${VERIF_SEED:-0} timeout 1800 /venv/bin/python -m vt.check $c --tier quick 2>&1 | grep -v "^c \[" | grep "tier=quick\|^VIOLATION\|^KNOWN-FINDING\|^HARNESS" | cut -c1-300
  echo "    [$c: exit ${PIPESTATUS[0]}, $(( $(date +%s) - s )) s]"
done
